#!/usr/bin/env python3
"""
Single entry point:  check.py <ID> [--tier quick|thorough] [--replay FILE]

Re-executes itself under /venv/bin/python (the interpreter that has py-trie's
dependencies) with PYTHONHASHSEED=0, puts $VERIF_REPO (default /repo) first on
sys.path so that the *current working tree* of py-trie is what gets exercised, makes
sure Hypothesis is importable (offline wheelhouse), then hands over to ptv.runner.
"""
import os
import subprocess
import sys

HERE = os.path.dirname(os.path.abspath(__file__))
PY = os.environ.get("VERIF_PYTHON", "/venv/bin/python")
WHEELS = "/opt/veriftools/wheels"
DEPS = os.path.join(HERE, ".deps")


def _reexec_if_needed():
    want_env = {
        "PYTHONHASHSEED": "0",
        "PYTHONDONTWRITEBYTECODE": "1",
        "HYPOTHESIS_STORAGE_DIRECTORY": os.path.join(HERE, ".work", "hypothesis"),
    }
    need = any(os.environ.get(k) != v for k, v in want_env.items())
    if os.path.exists(PY) and os.path.realpath(sys.executable) != os.path.realpath(PY):
        need = True
    if need and os.environ.get("_PTV_REEXEC") != "1":
        env = dict(os.environ, **want_env)
        env["_PTV_REEXEC"] = "1"
        exe = PY if os.path.exists(PY) else sys.executable
        os.execve(exe, [exe, os.path.abspath(__file__)] + sys.argv[1:], env)


def _bootstrap():
    repo = os.environ.get("VERIF_REPO", "/repo")
    sys.path[:] = [p for p in sys.path if os.path.realpath(p or ".") != os.path.realpath(repo)]
    sys.path.insert(0, repo)
    sys.path.insert(1, HERE)
    os.makedirs(os.path.join(HERE, ".work"), exist_ok=True)
    try:
        import hypothesis  # noqa: F401
    except ImportError:
        os.makedirs(DEPS, exist_ok=True)
        subprocess.run(
            [sys.executable, "-m", "pip", "install", "--quiet", "--no-index",
             "--find-links", WHEELS, "--target", DEPS, "hypothesis"],
            check=False, stdout=subprocess.DEVNULL, stderr=subprocess.DEVNULL,
        )
        sys.path.append(DEPS)
        try:
            import hypothesis  # noqa: F401
        except ImportError:
            print("HARNESS-ERROR: hypothesis is not importable and could not be installed offline")
            sys.exit(2)


if __name__ == "__main__":
    _reexec_if_needed()
    _bootstrap()
    from ptv import runner

    sys.exit(runner.main(sys.argv[1:]))
