"""
Interpreter for hexary histories (see hexcommon) with pluggable oracles:
  'map'   dict model after every op (C01)
  'root'  reference MPT root + stored root body after every op (C02)
  'prune' database == live hashed nodes, ref counts == reference multiset (C06)
"""
from hexbytes import HexBytes

from trie import HexaryTrie
from trie.constants import BLANK_NODE_HASH

from .hexcommon import lookup_keys, resolve_key, resolve_val
from .ref.mpt import BLANK_ROOT, RefTrie
from .util import Abort, Raised, abort_exception, cm_enter, cm_exit, expect, expect_eq, impl, nibbles_of


class OddBytes(bytes):
    """A bytes subclass with its own hex()/repr, like hexbytes.HexBytes before 1.0."""

    def hex(self, *args):
        return "0x" + super().hex(*args)

    def __repr__(self):
        return f"OddBytes({self.hex()!r})"


def apply_look(trie, model, op, prev=None):
    """An explicit single lookup in one spelling, compared with the model."""
    key = resolve_key(op[1], sorted(model), prev.get(None) if prev else None)
    want = model.get(key, b"")
    sp = op[2]
    if len(key) % 3 == 1:
        key = HexBytes(key)
    elif len(key) % 3 == 2:
        key = OddBytes(key)
    if sp == 0:
        expect_eq("get-returns-latest", impl("lookup-never-raises", trie.get, key), want, f"get({key!r})")
    elif sp == 1:
        expect_eq("getitem-returns-latest", impl("lookup-never-raises", trie.__getitem__, key), want, f"trie[{key!r}]")
    elif sp == 2:
        expect_eq("exists-agrees", impl("lookup-never-raises", trie.exists, key), key in model, f"exists({key!r})")
    else:
        expect_eq("contains-agrees", impl("lookup-never-raises", trie.__contains__, key), key in model, f"{key!r} in trie")
    return key, "look"


def apply_simple(trie, model, op, allowed=(), prev=None):
    """
    Apply one set/del/sete op to the trie (through impl) and to the model.
    With `allowed` (injected faults) a raised allowed exception leaves the model alone
    and is reported as ("faulted").
    """
    kind = op[0]
    if kind == "look":
        return apply_look(trie, model, op, prev)
    key = resolve_key(op[1], sorted(model), prev.get(None) if prev else None)
    if prev is not None:
        prev[None] = key
    if prev is not None and key in model:
        old = model[key]
    else:
        old = None
    syn = op[3] if kind == "set" else op[2]
    # a bytes subclass is a byte string too (HexBytes, or one that overrides hex()/repr)
    akey = (HexBytes(key) if len(key) % 2 else OddBytes(key)) if syn >= 2 else key
    if kind == "set":
        val = resolve_val(op[2], key, prev)
        if prev is not None and old is not None and old != val:
            prev[key] = old
        fn = trie.__setitem__ if syn % 2 else trie.set
        r = impl("set-never-raises", fn, akey, HexBytes(val) if syn >= 2 else val, allowed=allowed)
        if isinstance(r, Raised):
            return key, "faulted"
        noop = model.get(key) == val
        model[key] = val
        return key, ("noop-update" if noop else "set")
    if kind == "del":
        fn = trie.__delitem__ if syn % 2 else trie.delete
        r = impl("delete-never-raises", fn, akey, allowed=allowed)
        if isinstance(r, Raised):
            return key, "faulted"
        present = key in model
        model.pop(key, None)
        return key, ("delete" if present else "delete-absent")
    if kind == "sete":
        fn = trie.__setitem__ if syn % 2 else trie.set
        r = impl("set-empty-never-raises", fn, akey, b"", allowed=allowed)
        if isinstance(r, Raised):
            return key, "faulted"
        present = key in model
        model.pop(key, None)
        return key, ("set-empty" if present else "set-empty-absent")
    raise AssertionError(f"unknown op {op!r}")


def check_lookup(trie, model, k, spellings):
    want = model.get(k, b"")
    got = impl("lookup-never-raises", trie.get, k)
    expect_eq("get-returns-latest", got, want, f"get({k!r})")
    if spellings:
        got = impl("lookup-never-raises", trie.__getitem__, k)
        expect_eq("getitem-returns-latest", got, want, f"trie[{k!r}]")
        got = impl("lookup-never-raises", trie.exists, k)
        expect_eq("exists-agrees", got, k in model, f"exists({k!r})")
        got = impl("lookup-never-raises", trie.__contains__, k)
        expect_eq("contains-agrees", got, k in model, f"{k!r} in trie")


def check_map(trie, model, touched, info, ref=None):
    if touched is None:
        keys = lookup_keys(model)
        for k in keys:
            check_lookup(trie, model, k, True)
        if ref is not None:
            classify_lookups(ref, model, keys, info)
    else:
        near = lookup_keys({}, touched)
        for k in near:
            check_lookup(trie, model, k, True)
        for k in model:
            if k not in near:
                check_lookup(trie, model, k, False)


def classify_lookups(ref, model, keys, info):
    for k in keys:
        if k in model:
            info.label("lookup-stored")
            if k == b"":
                info.label("empty-key-stored")
            continue
        loc = ref.locate(nibbles_of(k))
        is_prefix = any(s.startswith(k) for s in model)
        if loc[0] == "partial":
            info.label("lookup-inside-extension" if loc[1].kind == "ext" else "lookup-inside-leaf")
            if is_prefix:
                info.label("absent-prefix-inside-ext-or-at-branch", loc[1].kind == "ext")
        elif loc[0] == "node":
            info.label(f"lookup-ends-at-{loc[1].kind}")
            if is_prefix and loc[1].kind in ("branch", "ext"):
                info.label("absent-prefix-inside-ext-or-at-branch")
        else:
            if any(k.startswith(s) for s in model):
                info.label("lookup-extends-stored-key")
            else:
                info.label("lookup-diverges")


def check_root(trie, model, info, ref):
    expect_eq("root-is-canonical", bytes(trie.root_hash), ref.root_hash,
              f"root hash for a mapping of {len(model)} keys")
    if model:
        body = impl("root-body-stored", trie.db.__getitem__, ref.root_hash, allowed=(KeyError,))
        expect("root-body-stored", isinstance(body, bytes) and body == ref.root_body,
               lambda: f"db[root_hash] is {body!r}, expected the rlp of the root node "
                       f"{ref.root_body!r}")
    else:
        expect_eq("empty-mapping-has-blank-root", bytes(trie.root_hash), BLANK_ROOT, "root of the empty mapping")
        expect_eq("blank-root-constant", BLANK_NODE_HASH, BLANK_ROOT, "BLANK_NODE_HASH")


def ref_labels(ref, info):
    nodes = ref.preorder()
    nbranch = 0
    for n in nodes:
        ln = len(n.enc)
        if ln in (31, 32, 33):
            info.label(f"rlp{ln}")
            info.label("threshold-node")
        if n is not ref.root and not n.hashed:
            info.label("embedded-node")
        if n.kind == "branch":
            nbranch += 1
            if n.value:
                info.label("branch-value")
        if n.kind == "ext":
            info.label("extension")
    if nodes and len(ref.root.enc) < 32:
        info.label("root-short")
    return nbranch


def check_prune(trie, db, model, info, ref):
    counts, bodies = ref.hashed_multiset()
    have = set(db.keys())
    want = set(bodies)
    missing = want - have
    extra = have - want
    expect("no-live-node-missing", not missing,
           lambda: f"{len(missing)} live node(s) missing from the db, e.g. {sorted(missing)[0].hex()}")
    expect("no-garbage-left", not extra,
           lambda: f"{len(extra)} node(s) left over in the db, e.g. {sorted(extra)[0].hex()} "
                   f"= {db[sorted(extra)[0]]!r}")
    for h, body in bodies.items():
        expect("stored-body-correct", db[h] == body, f"db[{h.hex()}] differs from the node body")
    rc = impl("ref_count", lambda: trie.ref_count)
    expect("ref-count-true", hasattr(rc, "items"), lambda: f"ref_count is {rc!r}, not a mapping of node hash -> count")
    got = {bytes(h): c for h, c in rc.items() if c}
    expect_eq("ref-count-true", got, dict(counts), "reference counts")
    # the count reported for one node: indexing, for live nodes and for nodes that died
    seen = info.scratch.setdefault(("seen-hashes", id(db)), set())
    seen.update(counts)
    for h in sorted(seen):
        c = impl("ref_count", lambda: trie.ref_count[h])
        expect_eq("ref-count-true", int(c), counts.get(h, 0), f"ref_count[{h.hex()}]")
    regen = impl("regenerate_ref_count", trie.regenerate_ref_count)
    expect("ref-count-equals-regenerated", hasattr(regen, "items"), lambda: f"regenerate_ref_count() returned {regen!r}")
    expect_eq("ref-count-equals-regenerated", {bytes(h): c for h, c in regen.items() if c},
              dict(counts), "regenerate_ref_count()")
    if counts and max(counts.values()) >= 2:
        info.label("shared-node")
        return True
    return False


def run_history(case, checks, info, state=None, ops=None, final_sweep=True, sparse=None):
    """
    case: {"prune": bool, "ops": [...]}.  Returns a dict of facts used by the callers
    to decide non-triviality.  With state=(trie, db, model) the history `ops` continues
    on an existing trie (the model dict is updated in place).
    """
    if state is None:
        prune = bool(case["prune"])
        db = {}
        trie = impl("construct", HexaryTrie, db, prune=prune)
        model = {}
        ops = case["ops"]
    else:
        trie, db, model = state
        prune = bool(trie.is_pruning)
    facts = {"deletes": 0, "overwrites": 0, "collapse": 0, "shared": 0, "batches": 0,
             "aborts": 0, "noop": 0, "merge-delete": 0}
    need_ref = "root" in checks or "prune" in checks
    info.label("prune" if prune else "no-prune")
    # sparse mode: no automatic look-ups after each step (they would refresh or consume any
    # per-object state of the trie) - only the look-ups that are part of the generated
    # history, and one full sweep at the very end
    if sparse is None:
        sparse = bool(case.get("sparse")) if case is not None else False
    info.label("sparse-lookups", sparse)
    prev = {}
    roots = [(bytes(trie.root_hash), dict(model))]

    def after(trie_, model_, touched, outer, prev_branches):
        full = touched is None or touched == "final"
        ref = RefTrie(model_) if (need_ref or full) else None
        if "map" in checks and not (sparse and touched != "final"):
            check_map(trie_, model_, None if full else touched, info, ref)
        nb = prev_branches
        if "root" in checks:
            check_root(trie_, model_, info, ref)
        if need_ref:
            nb = ref_labels(ref, info)
        if "prune" in checks and outer:
            if check_prune(trie_, db, model_, info, ref):
                facts["shared"] += 1
        return nb

    nb = 0
    for op in ops:
        if op[0] == "reroot":
            if prune:
                continue  # old roots of a pruning trie are gone by design
            root, old_model = roots[op[1] % len(roots)]
            trie.root_hash = root
            model.clear()
            model.update(old_model)
            info.label("re-pointed-root")
            nb = after(trie, model, None, True, nb)
            continue
        if op[0] != "batch":
            before = len(model)
            key, what = apply_simple(trie, model, op, prev=prev)
            info.label(what)
            if what == "look":
                continue
            if what in ("delete", "set-empty"):
                facts["deletes"] += 1
            if what == "noop-update":
                facts["noop"] += 1
            if what == "set" and before == len(model):
                facts["overwrites"] += 1
            nb2 = after(trie, model, key, True, nb)
            if what in ("delete", "set-empty") and need_ref and nb2 < nb:
                facts["collapse"] += 1
                info.label("delete-collapses-branch")
            nb = nb2
            roots.append((bytes(trie.root_hash), dict(model)))
            continue
        _, inner, end = op
        if end >= 0:
            end = min(end, len(inner))
        facts["batches"] += 1
        info.label("has-batch")
        cm = impl("squash_changes", trie.squash_changes)
        b = cm_enter("squash_changes", cm)
        bmodel = dict(model)
        aborted = False
        bnb = nb
        for i, iop in enumerate(inner):
            if end == i:
                aborted = True
                break
            before = len(bmodel)
            key, what = apply_simple(b, bmodel, iop, prev=prev)
            info.label("in-batch-" + what)
            if what == "look":
                continue
            if what in ("delete", "set-empty"):
                facts["deletes"] += 1
            if what == "set" and before == len(bmodel):
                facts["overwrites"] += 1
            bnb2 = after(b, bmodel, key, False, bnb)
            if what in ("delete", "set-empty") and need_ref and bnb2 < bnb:
                facts["collapse"] += 1
                info.label("delete-collapses-branch")
            bnb = bnb2
        if end == len(inner):
            aborted = True
        if aborted:
            facts["aborts"] += 1
            info.label("batch-aborted")
            cm_exit("squash_changes-exit", cm, abort_exception(end))
        else:
            cm_exit("squash_changes-exit", cm)
            model.clear()
            model.update(bmodel)
            info.label("batch-committed")
        nb = after(trie, model, None, True, nb)
        roots.append((bytes(trie.root_hash), dict(model)))
    if final_sweep:
        after(trie, model, "final", True, nb)
    facts["model"] = model
    return facts


def play(trie, model, ops):
    """Apply a history (simple ops and committed/aborted batches) without any oracle."""
    for op in ops:
        if op[0] == "reroot":
            continue
        if op[0] != "batch":
            apply_simple(trie, model, op)
            continue
        _, inner, end = op
        if end >= 0:
            end = min(end, len(inner))
        cm = impl("squash_changes", trie.squash_changes)
        b = cm_enter("squash_changes", cm)
        bmodel = dict(model)
        aborted = False
        for i, iop in enumerate(inner):
            if end == i:
                aborted = True
                break
            apply_simple(b, bmodel, iop)
        if end == len(inner):
            aborted = True
        if aborted:
            cm_exit("squash_changes-exit", cm, abort_exception(end))
        else:
            cm_exit("squash_changes-exit", cm)
            model.clear()
            model.update(bmodel)


def norm_counts(trie):
    rc = impl("ref_count", lambda: trie.ref_count)
    expect("ref-count-true", hasattr(rc, "items"), lambda: f"ref_count is {rc!r}, not a mapping of node hash -> count")
    return {bytes(h): c for h, c in rc.items() if c}
