"""
Shared generators and the history interpreter for HexaryTrie properties.

A *history* is plain data: a list of ops
  ["set", keyspec, valspec, syntax]   syntax 0: method, 1: dict syntax
  ["del", keyspec, syntax]
  ["sete", keyspec, syntax]           set(key, b'') - a delete
  ["batch", [ops...], end]            end: -1 commit, i>=0: raise before inner op i
                                      (i == len(ops): raise after the last op)
keyspec: ["lit", bytes] | ["near", i, how, a, b]  (resolved against the sorted model keys)
valspec: ["lit", bytes] | ["sfx", n]              (value determined by the key's last byte)
"""
from hypothesis import strategies as st

from .util import nibbles_of

# ------------------------------------------------------------------ keys

POOL_PREFIX = [b"", b"\x00", b"\x10", b"\x01", b"\x00\x00", b"\xff", b"\x12\x34"]
POOL_SUFFIX = [b"", b"\x00", b"\x01", b"\x10", b"\x01\x01", b"\xaa\xbb", b"\x56", b"\x57"]
LONG_BASE = bytes(range(1, 33))


def _directed(base, pos, nib, cut, tail):
    """base with the nibble at `pos` replaced, optionally truncated to whole bytes / extended."""
    if not base:
        return tail
    nibs = list(nibbles_of(base))
    nibs[pos % len(nibs)] = nib
    out = bytes(nibs[i] * 16 + nibs[i + 1] for i in range(0, len(nibs), 2))
    if cut is not None:
        out = out[: cut % (len(out) + 1)]
    return out + tail


def literal_keys(tier):
    max_len = 6 if tier == "quick" else 40
    pool = st.builds(
        lambda p, s: p + s, st.sampled_from(POOL_PREFIX), st.sampled_from(POOL_SUFFIX)
    )
    short = st.binary(max_size=max_len)
    long_shared = st.builds(
        lambda n, tail: LONG_BASE[:n] + tail,
        st.sampled_from([30, 31, 32]),
        st.binary(max_size=2),
    )
    bases = st.sampled_from(
        [b"\x12\x34\x56", b"\x12\x34", b"\x00\x00\x00\x00", b"\xab\xcd\xef\x01\x23", LONG_BASE]
    )
    pos = st.one_of(st.integers(0, 63), st.just(0), st.just(-1))
    directed = st.builds(
        _directed,
        bases,
        pos,
        st.integers(0, 15),
        st.one_of(st.none(), st.none(), st.integers(0, 40)),
        st.one_of(st.just(b""), st.just(b""), st.binary(min_size=1, max_size=2)),
    )
    # keys of 25..29 bytes (and 32-byte keys sharing 9-11 nibbles): together with 1-3 byte values
    # they give leaves whose RLP is 31..33 bytes because of the KEY, not the value
    edge_key = st.builds(
        lambda n, first, cut: (bytes([first]) + LONG_BASE[1:n]) if cut is None else LONG_BASE[:cut] + bytes([first]) + LONG_BASE[cut + 1:32],
        st.integers(25, 30), st.sampled_from([0x01, 0x11, 0x81, 0xF1]), st.one_of(st.none(), st.none(), st.integers(4, 6)),
    )
    return st.one_of(pool, pool, short, directed, directed, long_shared, edge_key)


def keyspecs(tier, near_weight=2):
    lit = st.tuples(st.just("lit"), literal_keys(tier))
    near = st.tuples(
        st.just("near"),
        st.integers(0, 30),
        st.sampled_from(["same", "same", "trunc", "ext", "flip", "flipl"]),
        st.integers(0, 255),
        st.integers(0, 15),
    )
    return st.one_of([lit] * 3 + [near] * near_weight)


def existing_keyspecs():
    return st.tuples(
        st.just("near"), st.integers(0, 30), st.just("same"), st.just(0), st.just(0)
    )


def resolve_key(spec, model_keys_sorted, last=None):
    if spec[0] == "lit":
        return spec[1]
    if spec[0] == "touched":  # the key of the most recent mutation
        return last if last is not None else b""
    _, i, how, a, b = spec
    ks = model_keys_sorted
    if not ks:
        return bytes([a]) if how in ("ext", "flip") else b""
    k = ks[i % len(ks)]
    if how == "same":
        return k
    if how == "trunc":
        return k[: a % (len(k) + 1)]
    if how == "ext":
        return k + bytes([a])
    # flip one nibble ("flipl": the last one)
    if not k:
        return bytes([a])
    nibs = list(nibbles_of(k))
    p = (len(nibs) - 1) if how == "flipl" else (a % len(nibs))
    nibs[p] = b if nibs[p] != b else (b + 1) % 16
    return bytes(nibs[j] * 16 + nibs[j + 1] for j in range(0, len(nibs), 2))


# ------------------------------------------------------------------ values

def literal_values(tier):
    edge_lens = st.sampled_from([1, 25, 26, 27, 28, 29, 30, 31, 32, 33, 34, 35, 36])
    rlp_lens = st.sampled_from([55, 56, 255, 256, 300, 55, 56, 255, 256, 300, 1024, 65535, 66000])
    fill = st.sampled_from([b"\x00", b"\x01", b"\x7f", b"\x80", b"\xff", b"v"])
    return st.one_of(
        st.binary(min_size=1, max_size=40),
        st.builds(lambda n, f: f * n, edge_lens, fill),
        st.builds(lambda n, f: f * n, edge_lens, fill),
        st.sampled_from([b"\x00", b"\x7f", b"\x80", b"\x01", b"\x81", b"\xff", b"\xc0", b"\x80\x80", b"\x7f\x7f\x7f"]),
        st.builds(lambda n, f: f * n, rlp_lens, fill),
        # values that look like node references or node encodings
        st.sampled_from([
            b"\xc0", b"\xc1\x80", b"\xc2\x20\x01", b"\xc4\x82\x20\x01\x01",
            bytes.fromhex("56e81f171bcc55a6ff8345e692c0f86e5b48e01b996cadc001622fb5e363b421"),
            bytes.fromhex("c5d2460186f7233c927e7db2dcc703c0e500b653ca82273b7bfad8045d85a470"),
            b"\x01" * 32,
        ]),
    )


def valspecs(tier, sfx_weight=2):
    lit = st.tuples(st.just("lit"), literal_values(tier))
    sfx = st.tuples(st.just("sfx"), st.sampled_from([1, 20, 31, 32, 33, 40]))
    prev = st.tuples(st.just("prev"), st.sampled_from([1, 33]))  # the key's previous value
    return st.one_of([lit] * 3 + [sfx] * sfx_weight + [prev])


def resolve_val(spec, key, prev=None):
    if spec[0] == "lit":
        return spec[1]
    if spec[0] == "prev" and prev is not None and key in prev:
        return prev[key]
    last = key[-1:] if key else b"\x55"
    return last * spec[1]


# ------------------------------------------------------------------ histories

def simple_ops(tier, near_weight=2, sfx_weight=2):
    ks = keyspecs(tier, near_weight)
    vs = valspecs(tier, sfx_weight)
    # 0: method, 1: dict syntax, 2/3: the same with HexBytes (a bytes subclass) arguments
    syn = st.sampled_from([0, 1, 0, 1, 0, 1, 2, 3])
    ex = existing_keyspecs()
    return st.one_of(
        st.tuples(st.just("set"), ks, vs, syn),
        st.tuples(st.just("set"), ks, vs, syn),
        st.tuples(st.just("set"), ks, vs, syn),
        st.tuples(st.just("set"), ex, vs, syn),  # overwrite (maybe with the same value)
        st.tuples(st.just("del"), ex, syn),
        st.tuples(st.just("del"), ex, syn),
        st.tuples(st.just("del"), ex, syn),
        st.tuples(st.just("del"), ks, syn),
        st.tuples(st.just("sete"), ex, syn),
    )


MIRROR_PREFIX = [b"\x00", b"\x10", b"\x01", b"\x12\x34", b"\xff", b"\x00\x00"]
MIRROR_SUFFIX = [b"\x00", b"\x01", b"\x10", b"\xaa\xbb", b"\x56", b"\x57", b"\x01\x01"]


def mirror_fragments():
    """
    Several set ops that build the same sub-trie (same suffixes, suffix-determined
    values of >= 20 bytes) under two or three different prefixes: shared hashed nodes.
    """

    def build(prefixes, suffixes, n, order):
        ops = [("set", ("lit", p + s), ("sfx", n), 0) for p in prefixes for s in suffixes]
        if order:
            ops.reverse()
        return ops

    return st.builds(
        build,
        st.lists(st.sampled_from(MIRROR_PREFIX), min_size=2, max_size=3, unique=True),
        st.lists(st.sampled_from(MIRROR_SUFFIX), min_size=2, max_size=3, unique=True),
        st.sampled_from([20, 31, 32, 33, 40]),
        st.booleans(),
    )


def twin_fragments():
    """
    Two keys that differ in exactly one nibble and carry the same (hashed-size) value: two
    IDENTICAL sibling leaves under one branch (one node referenced twice by the same parent);
    then one of them is deleted / overwritten, so the branch collapses onto the other.
    """

    def build(base, pos, n1, n2, size, then, syn):
        nibs = list(nibbles_of(base))
        p = pos % len(nibs)
        a, b = list(nibs), list(nibs)
        a[p], b[p] = n1, (n2 if n2 != n1 else (n1 + 1) % 16)
        ka = bytes(a[i] * 16 + a[i + 1] for i in range(0, len(a), 2))
        kb = bytes(b[i] * 16 + b[i + 1] for i in range(0, len(b), 2))
        val = ("lit", b"T" * size)
        ops = [("set", ("lit", ka), val, syn), ("set", ("lit", kb), val, 1 - syn)]
        if then == 0:
            ops.append(("del", ("lit", ka), syn))
        elif then == 1:
            ops.append(("set", ("lit", kb), ("lit", b"other" * 8), syn))
        elif then == 2:
            ops += [("del", ("lit", kb), syn), ("del", ("lit", ka), syn)]
        return ops

    return st.builds(build, st.sampled_from([b"\x71\xab\xcd", b"\x12\x34", b"\x00\x00\x00\x00", LONG_BASE]),
                     st.integers(0, 63), st.integers(0, 15), st.integers(0, 15),
                     st.sampled_from([32, 33, 40, 20]), st.integers(0, 3), st.integers(0, 1))


def edge_leaf_fragments():
    """
    A leaf whose RLP is 31..33 bytes because of a long KEY and a 1-3 byte value (also bytes
    >= 0x80, whose RLP is two bytes), stored and then removed / overwritten / split.
    """

    def build(n, first, val, then, syn):
        k = bytes([first]) + LONG_BASE[1:n]
        ops = [("set", ("lit", k), ("lit", val), syn)]
        if then == 0:
            ops.append(("del", ("lit", k), syn))
        elif then == 1:
            ops.append(("set", ("lit", k), ("lit", b"other"), 1 - syn))
        elif then == 2:
            ops.append(("set", ("lit", bytes([first ^ 0x10]) + LONG_BASE[1:n]), ("lit", val), syn))
            ops.append(("del", ("lit", k), syn))
        return ops

    return st.builds(build, st.integers(25, 30), st.sampled_from([0x01, 0x11, 0x81]),
                     st.sampled_from([b"\x01", b"\x7f", b"\x80", b"\x81", b"\xff", b"\x80\x80", b"\x01\x02", b"\xff\xff\xff"]),
                     st.integers(0, 3), st.integers(0, 1))


def collapse_fragments():
    """
    A small sub-trie under a prefix P, then the delete that forces the remaining structure to
    be re-normalised: a branch left with ONE child that is (a) another branch, (b) a leaf,
    (c) an extension, or (d) left with only its own value / only one child next to a removed
    value.  With a non-empty P the node above is an extension that has to absorb the result.
    """

    def build(p, n1, n2, x1, x2, shape, size, order, syn):
        n2 = n2 if n2 != n1 else (n1 + 1) % 16
        x2 = x2 if x2 != x1 else (x1 + 1) % 16
        val = ("sfx", size)
        if shape == 0:    # child n1 is a branch
            keep = [p + bytes([n1 * 16 + x1]) + b"\x01", p + bytes([n1 * 16 + x2]) + b"\x02"]
        elif shape == 1:  # child n1 is a leaf
            keep = [p + bytes([n1 * 16 + x1]) + b"\x01\x02"]
        elif shape == 2:  # child n1 is an extension leading to a branch
            keep = [p + bytes([n1 * 16 + x1, 0x33, x1 * 16 + 1]), p + bytes([n1 * 16 + x1, 0x33, x2 * 16 + 2])]
        else:             # the branch carries a value itself (key P) next to one child
            keep = [p, p + bytes([n1 * 16 + x1]) + b"\x01"]
        victim = p + bytes([n2 * 16 + x2]) + b"\x09" if shape != 3 else keep[order % 2]
        sets = [("set", ("lit", k), val, syn) for k in keep if k != victim or shape == 3]
        if shape != 3:
            sets.append(("set", ("lit", victim), val, 1 - syn))
        if order % 2:
            sets.reverse()
        return sets + [("del", ("lit", victim), syn)]

    return st.builds(build, st.sampled_from([b"", b"\x12", b"\x12\x34", b"\x00", b"\xab\xcd\xef"]),
                     st.integers(0, 15), st.integers(0, 15), st.integers(0, 15), st.integers(0, 15),
                     st.integers(0, 3), st.sampled_from([1, 20, 33]), st.integers(0, 3), st.integers(0, 1))


def fan_items():
    """16 keys that differ in one nibble: a full branch node (all 16 children present)."""
    return st.builds(
        lambda p, lo, n: [(p + bytes([i * 16 + lo]), ("sfx", n)) for i in range(16)],
        st.sampled_from([b"", b"\x12", b"\x00\x00"]),
        st.integers(0, 15),
        st.sampled_from([1, 33]),
    )


def fan_fragments():
    return fan_items().map(lambda items: [("set", ("lit", k), v, 0) for k, v in items])


def _flatten(fragments, max_ops):
    out = []
    for f in fragments:
        if isinstance(f, list):
            out.extend(f)
        else:
            out.append(f)
    return out[:max_ops]


def look_ops(tier):
    """Explicit lookups (one spelling, one key) and re-pointing the trie at an earlier root."""
    ks = keyspecs(tier, near_weight=6)
    return st.one_of(
        st.tuples(st.just("look"), ks, st.integers(0, 3)),
        st.tuples(st.just("look"), existing_keyspecs(), st.integers(0, 3)),
    )


def probe_fragments(tier):
    """
    look at key k (one spelling) - change k in a committed batch / by re-pointing the root /
    directly - look at k again or write its previous value back: the shapes in which state
    remembered by the trie OBJECT between two calls would show.
    """
    touched = ("touched",)

    def build(i, sp1, sp2, vs, how, syn, tail):
        k = ("near", i, "same", 0, 0)
        change = ("del", k, syn) if how == 1 else ("set", k, vs, syn)
        mid = [("reroot", i)] if how == 2 else [("batch", [change], -1)] if how != 3 else [change]
        last = [("look", touched, sp2)] if tail == 0 else [("set", touched, ("prev", 33), syn)] if tail == 1 else \
            [("set", touched, ("prev", 33), syn), ("look", touched, sp2)]
        return [("look", k, sp1)] + mid + last

    return st.builds(build, st.integers(0, 30), st.integers(0, 3), st.integers(0, 3), valspecs(tier),
                     st.integers(0, 3), st.integers(0, 1), st.integers(0, 2))


def histories(tier, max_ops=None, batches=True, aborts=False, near_weight=2, sfx_weight=2,
              min_ops=0, mirror_weight=1, looks=0, reroot=False):
    if max_ops is None:
        max_ops = 30 if tier == "quick" else 80
    op = simple_ops(tier, near_weight, sfx_weight)
    if looks:
        op = st.one_of([op] * 3 + [look_ops(tier)] * looks)
    mirror = mirror_fragments()
    parts = ([op] * 12 + [mirror] * mirror_weight + [fan_fragments()] + [twin_fragments()] * mirror_weight
             + [edge_leaf_fragments()] + [collapse_fragments()])
    if batches:
        inner = st.lists(st.one_of([op] * 8 + [mirror] * mirror_weight + [twin_fragments()] * mirror_weight
                                   + [edge_leaf_fragments()] + [collapse_fragments()]), max_size=8).map(
            lambda fr: _flatten(fr, 12)
        )
        if aborts:
            end = st.one_of(st.just(-1), st.just(-1), st.integers(0, 12))
        else:
            end = st.just(-1)
        batch = st.tuples(st.just("batch"), inner, end)
        parts = parts + [batch] * 2
    if reroot:
        parts = parts + [st.tuples(st.just("reroot"), st.integers(0, 60))]
    if looks and batches:
        parts = parts + [probe_fragments(tier)] * 2
    normal = st.lists(st.one_of(parts), min_size=min_ops, max_size=max_ops).map(
        lambda fr: _flatten(fr, max_ops + 16)
    )
    if tier == "quick" or max_ops < 60:
        return normal
    # thorough only: a class of long histories (hundreds of keys, deep tries)
    large = st.lists(st.one_of(parts), min_size=max_ops, max_size=max_ops * 3).map(
        lambda fr: _flatten(fr, max_ops * 3 + 16)
    )
    return st.one_of([normal] * 9 + [large])


def lookup_keys(model, touched=None, extra=()):
    """
    Keys worth looking up around a model: stored keys, every proper byte-prefix of a
    stored key, stored key + one byte, one-nibble flips - either for the whole model
    (touched is None) or for the neighbourhood of one key.
    """
    out = set(extra)
    src = list(model) if touched is None else [touched]
    for k in src:
        out.add(k)
        for n in range(len(k)):
            out.add(k[:n])
        out.add(k + b"\x00")
        out.add(k + b"\x57")
        if k:
            out.add(k[:-1] + bytes([k[-1] ^ 0x01]))
            out.add(k[:-1] + bytes([k[-1] ^ 0x10]))
            out.add(bytes([k[0] ^ 0x10]) + k[1:])
    if touched is not None:
        out.update(model)
    return sorted(out)


def item_lists(tier, min_size=0, max_size=10, keys=None):
    """[(key, valspec)] lists, occasionally containing a 16-way fan (full branch)."""
    keys = keys if keys is not None else literal_keys(tier)
    plain = st.lists(st.tuples(keys, valspecs(tier)), min_size=min_size, max_size=max_size)
    with_fan = st.builds(lambda a, f, b: a + f + b, plain, fan_items(),
                         st.lists(st.tuples(keys, valspecs(tier)), max_size=3))
    mirror = mirror_fragments().map(lambda ops: [(op[1][1], op[2]) for op in ops])
    with_mirror = st.builds(lambda a, m, b: a + m + b, plain, mirror,
                            st.lists(st.tuples(keys, valspecs(tier)), max_size=3))
    return st.one_of([plain] * 6 + [with_fan] + [with_mirror] * 2)
