"""
Coverage-guided second engine (thorough tier): atheris/libFuzzer drives the SAME
Hypothesis strategy and the SAME run_case through `fuzz_one_input`, with py-trie
instrumented for coverage.  Usage (spawned by the runner):

  fuzz_target.py <PROP> <tier> <stats.json> <replay.json> [libFuzzer args...] <corpus_dir>

The semantic oracle is inside the target; the first Violation writes the replay file
(plain-data case, replayable with check.py --replay) and crashes the fuzzer on purpose.
"""
import json
import os
import sys
import time

HERE = os.path.dirname(os.path.dirname(os.path.abspath(__file__)))


def main():
    prop, tier, stats_path, replay_path = sys.argv[1:5]
    fuzz_args = [sys.argv[0]] + sys.argv[5:]
    repo = os.environ.get("VERIF_REPO", "/repo")
    sys.path.insert(0, repo)
    sys.path.insert(1, HERE)
    sys.path.append(os.path.join(HERE, ".deps"))
    import atheris

    with atheris.instrument_imports(include=["trie"]):
        import trie  # noqa: F401
        import trie.binary  # noqa: F401
        import trie.branches  # noqa: F401
        import trie.fog  # noqa: F401
        import trie.hexary  # noqa: F401
        import trie.iter  # noqa: F401
        import trie.smt  # noqa: F401

    from hypothesis import HealthCheck, given, settings

    from ptv import runner
    from ptv.util import Violation, canonical, digest64

    mod = runner.prop_module(prop)
    known = runner.load_known(prop)
    st = {"n": 0, "nontrivial": set(), "labels": {}, "t0": time.time(), "last": 0.0}

    def flush():
        with open(stats_path + ".tmp", "w") as fh:
            json.dump({"executions": st["n"], "distinct_nontrivial": len(st["nontrivial"]),
                       "labels": st["labels"], "wall_s": round(time.time() - st["t0"], 1)}, fh)
        os.replace(stats_path + ".tmp", stats_path)

    @settings(database=None, deadline=None, suppress_health_check=list(HealthCheck))
    @given(mod.strategy(tier))
    def test(case):
        text = canonical(case)
        st["n"] += 1
        try:
            info = runner.run_one(mod, text)
        except Violation as v:
            from ptv.util import from_jsonable

            if runner.match_known(mod, known, from_jsonable(json.loads(text)), v) is not None:
                return
            runner.write_replay(replay_path, prop, tier, int(os.environ.get("VERIF_SEED", "1")),
                                text, v, "atheris")
            flush()
            raise
        if info.nontrivial:
            st["nontrivial"].add(digest64(text))
        for lab in info.labels:
            st["labels"][lab] = st["labels"].get(lab, 0) + 1
        if st["n"] % 100 == 0 or time.time() - st["last"] > 5:
            st["last"] = time.time()
            flush()

    atheris.Setup(fuzz_args, test.hypothesis.fuzz_one_input)
    atheris.Fuzz()


if __name__ == "__main__":
    main()
