"""C09 - a fog-guided walk finds everything, even while the trie changes."""
from hypothesis import strategies as st

from trie import HexaryTrie
from trie.exceptions import (
    FullDirectionalVisibility,
    MissingTraversalNode,
    PerfectVisibility,
    TraversedPartialPath,
)
from trie.fog import HexaryTrieFog, TrieFrontierCache

from .c11 import _prefixes as fog_prefixes
from ..hexcommon import item_lists, literal_keys, resolve_val, valspecs
from ..util import Info, Raised, as_nibbles, bytes_of_nibbles, expect, expect_eq, impl, nibbles_of

ID = "C09"
LEVEL = "exploration"
BUDGET = {"quick": 8000, "thorough": 600000}
RULE = (
    "case = (initial mapping of 2-14 keys, prune flag, use_cache flag, schedule of walk "
    "steps each preceded by 0-3 mutations and choosing nearest_unknown / nearest_right "
    "with an arbitrary query key). The harness owns the interleaving. Mutations are "
    "weighted towards moving structure across the walk's frontier: delete a live key, "
    "re-insert a deleted key, overwrite, new key, and two structure-directed kinds "
    "resolved at run time - collapse(i): delete every key under the siblings of the i-th "
    "unexplored prefix; split(i): insert a key forking inside the leaf/extension that "
    "covers the i-th unexplored prefix. The walk follows the documented protocol "
    "(traverse from root or traverse_from a TrieFrontierCache entry; stale cache entry "
    "in a pruning trie -> drop it and go from the root; TraversedPartialPath -> "
    "simulated_node; explore; cache add/delete) and continues after the schedule until "
    "the fog is complete. Oracle (invariant over the history): (a) termination within "
    "1 + |non-empty nibble prefixes of all keys ever written| explore steps, fog "
    "complete; (b) static schedule: met pairs == model exactly; (c) with mutations: every "
    "key stored before the first walk step whose value never changed is met with that "
    "value, and every pair met was stored at some moment. Non-trivial = a mutation "
    "landed under a still-unexplored prefix between two walk steps AND a "
    "TraversedPartialPath or stale-cache event occurred. Distinct = canonical JSON."
    " Added after the seeded rounds: the walker ends on PerfectVisibility like NodeIterator / the README loop; a second walker with its own fog and cache walks another (static) trie one step after each step of the first and must meet exactly that trie's contents."
)
LEVEL_TEXT = (
    "Exploration of harness-owned schedules (walk steps interleaved with mutations, "
    "single-threaded) by property-based testing with structure-directed mutation "
    "generators; invariants over the history with an exact step bound instead of a "
    "timeout."
)
LEVEL_NOTE = "Schedules are sampled, never enumerated completely; real multi-threaded use is outside the property. Keys inserted during the walk carry no guarantee and none is asserted."
TECHNIQUE = "schedule-controlled property-based testing: fog walk interleaved with generated and structure-directed mutations; history invariants with exact termination bound"

nib = st.integers(0, 15)


CLUSTER_PREFIX = [b"\x12\x34", b"\x12\x35", b"\x12", b"\x00", b"\x00\x12", b"\xab", b"\x12\x34\x56"]
CLUSTER_TAIL = [b"\x56", b"\x57", b"\x56\x00", b"\x56\x01", b"", b"\x66\x00", b"\x00\x00\x00"]


def strategy(tier):
    big = tier != "quick"
    clustered = st.builds(lambda p, s: p + s, st.sampled_from(CLUSTER_PREFIX), st.sampled_from(CLUSTER_TAIL))
    keys = st.one_of(literal_keys(tier), clustered, clustered)
    item = st.tuples(keys, valspecs(tier))
    mut = st.one_of(
        st.tuples(st.just("del"), st.integers(0, 40)),
        st.tuples(st.just("del"), st.integers(0, 40)),
        st.tuples(st.just("del"), st.integers(0, 40)),
        st.tuples(st.just("reins"), st.integers(0, 40)),
        st.tuples(st.just("over"), st.integers(0, 40), valspecs(tier)),
        st.tuples(st.just("new"), keys, valspecs(tier)),
        st.tuples(st.just("collapse"), st.integers(0, 40)),
        st.tuples(st.just("collapse"), st.integers(0, 40)),
        st.tuples(st.just("collapse"), st.integers(0, 40)),
        st.tuples(st.just("split"), st.integers(0, 40), st.integers(0, 40), nib, valspecs(tier)),
        st.tuples(st.just("split"), st.integers(0, 40), st.integers(0, 40), nib, valspecs(tier)),
    )
    query = st.tuples(st.sampled_from(["unknown", "unknown", "right"]), st.lists(nib, max_size=8))
    busy = st.tuples(st.lists(mut, min_size=1, max_size=3), query)
    idle = st.tuples(st.just([]), query)
    step = st.one_of(busy, busy, idle)
    static_step = st.tuples(st.just([]), query)
    dynamic = st.lists(step, min_size=3, max_size=40 if big else 16)
    return st.fixed_dictionaries(
        {
            "prune": st.booleans(),
            "use_cache": st.booleans(),
            # now and then the walk starts on an empty or one-key trie
            "items": st.one_of(*([item_lists(tier, 2, 24 if big else 14, keys=keys)] * 14
                                 + [item_lists(tier, 0, 1, keys=keys)])),
            "schedule": st.one_of(dynamic, dynamic, dynamic, dynamic, dynamic,
                                  st.lists(static_step, max_size=6)),
        }
    )


def _tt(x):
    return as_nibbles("well-formed-result", x, "nibbles in a walk result")


def run_case(case):
    info = Info()
    prune = bool(case["prune"])
    use_cache = bool(case["use_cache"])
    info.label("prune" if prune else "no-prune")
    info.label("cache" if use_cache else "no-cache")
    info.label("starts-empty", not case["items"])
    t = impl("construct", HexaryTrie, {}, prune=prune)
    model = {}
    ever = set()
    written_keys = set()
    deleted = []

    def do_set(k, v):
        impl("set-never-raises", t.set, k, v)
        changed = model.get(k) != v
        model[k] = v
        ever.add((k, v))
        written_keys.add(k)
        return changed

    def do_del(k):
        impl("delete-never-raises", t.delete, k)
        if k in model:
            del model[k]
            deleted.append(k)
            return True
        return False

    for k, vs in case["items"]:
        do_set(k, resolve_val(vs, k))

    fog = impl("fog", HexaryTrieFog)
    cache = impl("cache", TrieFrontierCache)
    met = {}
    met_all = set()
    stable = None
    steps = 0
    effective_mutations = 0
    frontier_mutations = 0
    events = set()
    mutated_since_cache = False

    def unexplored():
        return sorted(fog_prefixes(fog))

    def touch(k):
        """Book-keeping for a key whose value changed / disappeared."""
        nonlocal effective_mutations, frontier_mutations, mutated_since_cache
        effective_mutations += 1
        mutated_since_cache = True
        if stable is not None:
            stable.pop(k, None)
            kn = nibbles_of(k)
            if any(kn[: len(p)] == p for p in unexplored()):
                frontier_mutations += 1

    def apply_mutation(m):
        kind = m[0]
        live = sorted(model)
        if kind == "del":
            if live:
                k = live[m[1] % len(live)]
                do_del(k)
                touch(k)
        elif kind == "reins":
            if deleted:
                k = deleted[m[1] % len(deleted)]
                v = (k[-1:] or b"r") * 33
                if do_set(k, v):
                    touch(k)
        elif kind == "over":
            if live:
                k = live[m[1] % len(live)]
                if do_set(k, resolve_val(m[2], k)):
                    touch(k)
        elif kind == "new":
            k = m[1]
            if do_set(k, resolve_val(m[2], k)):
                touch(k)
        elif kind == "collapse":
            un = [p for p in unexplored() if p]
            if un:
                p = un[m[1] % len(un)]
                parent = p[:-1]
                victims = [k for k in live
                           if nibbles_of(k)[: len(parent)] == parent and nibbles_of(k)[: len(p)] != p]
                for k in victims:
                    do_del(k)
                    touch(k)
                if victims:
                    info.label("mutation-collapse")
        elif kind == "split":
            un = unexplored()
            if un and live:
                p = un[m[1] % len(un)]
                under = [k for k in live if nibbles_of(k)[: len(p)] == p]
                if under:
                    k = under[m[2] % len(under)]
                    kn = list(nibbles_of(k))
                    if len(kn) > len(p):
                        j = len(p) + (m[2] % (len(kn) - len(p)))
                        kn[j] = m[3] if kn[j] != m[3] else (m[3] + 1) % 16
                        nk = bytes_of_nibbles(kn)
                    else:
                        nk = k + bytes([m[3] * 16 + m[3]])
                    if do_set(nk, resolve_val(m[4], nk)):
                        touch(nk)
                        info.label("mutation-split")

    def bound():
        prefixes = set()
        for k in written_keys:
            kn = nibbles_of(k)
            for i in range(1, len(kn) + 1):
                prefixes.add(kn[:i])
        return 1 + len(prefixes)

    def walk_step(query):
        nonlocal fog, steps, mutated_since_cache
        how, qk = query
        qk = tuple(qk)
        if how == "right":
            r = impl("nearest_right", fog.nearest_right, qk,
                     allowed=(PerfectVisibility, FullDirectionalVisibility))
            # like NodeIterator and the README loop: PerfectVisibility means "walk over"
            if isinstance(r, Raised) and not isinstance(r.exc, PerfectVisibility):
                r = impl("nearest_unknown", fog.nearest_unknown, qk, allowed=(PerfectVisibility,))
            info.label("nearest_right-used")
        else:
            r = impl("nearest_unknown", fog.nearest_unknown, qk, allowed=(PerfectVisibility,))
        if isinstance(r, Raised):
            expect("complete-iff-perfect-visibility", impl("is_complete", lambda: fog.is_complete) is True,
                   "PerfectVisibility raised but the fog is not complete")
            return False
        prefix = _tt(r)
        node = None
        if use_cache:
            entry = impl("cache.get", cache.get, prefix, allowed=(KeyError,))
            if not isinstance(entry, Raised):
                parent, seg = entry
                got = impl("walk-traverse_from", t.traverse_from, parent, seg,
                           allowed=(TraversedPartialPath, MissingTraversalNode))
                if isinstance(got, Raised) and isinstance(got.exc, MissingTraversalNode):
                    # stale cache entry pointing at a pruned node: drop it, go from the root
                    expect("missing-node-only-from-stale-cache", prune and mutated_since_cache,
                           f"traverse_from a cached parent raised {got.exc!r} although nothing was pruned")
                    impl("cache.delete", cache.delete, prefix)
                    events.add("pruned-stale-miss")
                else:
                    node = got
                    if mutated_since_cache:
                        events.add("cache-used-after-mutation")
        if node is None:
            node = impl("walk-traverse", t.traverse, prefix, allowed=(TraversedPartialPath,))
        if isinstance(node, Raised):
            exc = node.exc
            events.add("partial-" + ("leaf" if not exc.node.sub_segments else "ext"))
            node = exc.simulated_node
        subs = [_tt(s) for s in node.sub_segments]
        fog = impl("walk-explore", fog.explore, prefix, subs)
        if use_cache:
            if subs:
                impl("cache.add", cache.add, prefix, node, subs)
            else:
                impl("cache.delete", cache.delete, prefix)
        steps += 1
        if node.value:
            kn = prefix + _tt(node.suffix)
            expect("met-key-is-whole-bytes", len(kn) % 2 == 0,
                   f"walk met a value at odd nibble path {kn}")
            k = bytes_of_nibbles(kn)
            v = bytes(node.value)
            met[k] = v
            met_all.add((k, v))
        return True

    # a second walker with its own fog and its own frontier cache walks ANOTHER (static) trie,
    # one step after each step of the first: two walks alive at the same time must not mix
    t2 = impl("construct", HexaryTrie, {})
    model2 = {}
    for i, k in enumerate(sorted(model) + [b"\x12\x34\x77", b"\x00"]):
        v = b"second-" + bytes([i]) * (1 + 35 * (i % 2))
        impl("set-never-raises", t2.set, k, v)
        model2[k] = v
    w2 = {"fog": impl("fog", HexaryTrieFog), "cache": impl("cache", TrieFrontierCache), "met": {}}

    def second_walk_step():
        r = impl("nearest_unknown", w2["fog"].nearest_unknown, (), allowed=(PerfectVisibility,))
        if isinstance(r, Raised):
            return
        prefix = _tt(r)
        entry = impl("cache.get", w2["cache"].get, prefix, allowed=(KeyError,))
        if isinstance(entry, Raised):
            node = impl("walk-traverse", t2.traverse, prefix, allowed=(TraversedPartialPath,))
        else:
            node = impl("walk-traverse_from", t2.traverse_from, entry[0], entry[1], allowed=(TraversedPartialPath,))
        if isinstance(node, Raised):
            node = node.exc.simulated_node
        subs = [_tt(s) for s in node.sub_segments]
        w2["fog"] = impl("walk-explore", w2["fog"].explore, prefix, subs)
        if subs:
            impl("cache.add", w2["cache"].add, prefix, node, subs)
        else:
            impl("cache.delete", w2["cache"].delete, prefix)
        if node.value:
            w2["met"][bytes_of_nibbles(prefix + _tt(node.suffix))] = bytes(node.value)

    last_query = ("unknown", [])
    limit_hit = False
    for muts, query in case["schedule"]:
        for m in muts:
            apply_mutation(m)
        if stable is None:
            stable = dict(model)
        last_query = query
        second_walk_step()
        if not walk_step(query):
            break
        expect("walk-terminates-within-bound", steps <= bound(),
               lambda: f"{steps} explore steps exceed the bound {bound()} (prefixes of all keys ever written + 1)")
    if stable is None:
        stable = dict(model)
    while True:
        second_walk_step()
        if not walk_step(last_query):
            break
        if steps > bound():
            limit_hit = True
            break
    expect("walk-terminates-within-bound", not limit_hit,
           lambda: f"walk still not complete after {steps} explore steps (bound {bound()})")
    expect("fog-complete-at-end", impl("is_complete", lambda: fog.is_complete) is True, "fog not complete at the end")
    for _ in range(4 * len(model2) + 8):
        second_walk_step()
    expect_eq("static-walk-meets-exact-contents", w2["met"], model2,
              "pairs met by a second walker (own fog and cache, other trie) that ran interleaved with the first")

    if effective_mutations == 0:
        expect_eq("static-walk-meets-exact-contents", dict(met), dict(model), "pairs met by the walk of an unchanging trie")
        expect_eq("static-walk-meets-each-once", len(met_all), len(model), "number of distinct pairs met")
        info.label("static")
    for k, v in stable.items():
        expect("stable-key-is-met", (k, v) in met_all,
               lambda: f"key {k!r} kept the value {v!r} for the whole walk but was "
                       f"{'met with ' + repr(met[k]) if k in met else 'never met'}")
    for k, v in sorted(met_all):
        expect("met-pair-was-stored", (k, v) in ever, lambda: f"walk met ({k!r}, {v!r}) which was never stored")
    for e in events:
        info.label(e)
    info.label("frontier-mutation", frontier_mutations > 0)
    info.count("explore_steps", steps)
    info.nontrivial = frontier_mutations > 0 and bool(
        events & {"partial-leaf", "partial-ext", "pruned-stale-miss", "cache-used-after-mutation"}
    )
    return info
