"""C08 - traverse / traverse_from describe the canonical node at every nibble path."""
from hypothesis import strategies as st

from trie import HexaryTrie
from trie.exceptions import TraversedPartialPath

from ..faults import FaultDB
from ..hexcommon import item_lists, literal_keys, resolve_val, valspecs
from ..ref.mpt import RefTrie
from ..ref.rlp_hp import hp, rlp_encode
from ..util import Info, Raised, as_nibbles, call_with_headroom, cm_enter, cm_exit, expect, expect_eq, impl, nibbles_of

ID = "C08"
LEVEL = "exploration"
BUDGET = {"quick": 1300, "thorough": 100000}
RULE = (
    "case = (mapping of 1-10 items incl. prefix-related keys, branch values, embedded and "
    "hashed nodes; extra nibble paths). For each mapping the paths are: every nibble "
    "prefix of every stored key, each key + one nibble, each key with its last nibble "
    "changed, drawn paths up to 2 nibbles beyond (capped at ~50-70 per case), and for each "
    "path every split prefix+segment (paths longer than 8 nibbles: all node boundaries +-1, both ends, two picks). "
    "Oracle: reference MPT locate(path) -> node / blank / partial; traverse must return "
    "the node with equal type, sub_segments, value, suffix and rlp(raw)==reference body; "
    "blank exactly when no stored key starts with the path (checked on the key set); "
    "else TraversedPartialPath with equal nibbles_traversed, untraversed_tail, node and "
    "a simulated node rebuilt independently (trimmed suffix / extension path, raw HP "
    "bytes). traverse_from(node@prefix, segment) == traverse(prefix+segment) with "
    "nibbles_traversed rebased, db reads <= child hops on the segment; root_node == "
    "traverse(()). The same trie object is observed again after up to two later steps (a "
    "committed squash_changes batch, direct ops, root_hash pointed back at an earlier "
    "root). Non-trivial = the path set of the case hit node, blank and partial "
    "outcomes incl. a partial inside a leaf AND inside an extension. Distinct = "
    "canonical JSON."
    ' Added after the seeded rounds: the path is also passed as list / Nibbles / deque / array / UserList; the caller scribbles on returned node bodies before the comparison; fixed deep-chain cases, traversed also with only 100 frames of stack left.'
)
LEVEL_TEXT = (
    "Exploration by differential property testing against the reference trie's "
    "locate() for a structured path set per generated mapping (all key prefixes, "
    "one-beyond, flips), including every traverse_from split and a read-count bound."
)
LEVEL_NOTE = "Trusted: reference MPT (KAT-anchored). Simulated nodes count as 'a node obtained at prefix' for traverse_from, as the fog walk uses them."
TECHNIQUE = "differential property testing: traverse/traverse_from vs reference locate() over structured path sets; read counting"

TYPE_NAME = {"blank": "BLANK", "leaf": "LEAF", "ext": "EXTENSION", "branch": "BRANCH"}


def strategy(tier):
    n_items = 10 if tier == "quick" else 30
    return st.fixed_dictionaries(
        {
            "items": item_lists(tier, 0, n_items),
            "extra": st.lists(st.lists(st.integers(0, 15), max_size=14), max_size=4),
            "later": st.lists(st.one_of(
                st.tuples(st.just("batch"), item_lists(tier, 0, 3), st.lists(st.integers(0, 40), max_size=2)),
                st.tuples(st.just("direct"), item_lists(tier, 0, 2), st.lists(st.integers(0, 40), max_size=2)),
                st.tuples(st.just("reroot"), st.integers(0, 5)),
            ), max_size=2),
            "pick": st.integers(0, 1000),
        }
    )


def exhaustive(tier):
    yield ("deep chain of nested prefix keys (200 levels, or as deep as set() can build if that is less): traverse / traverse_from at every depth",
           iter([{"deep": 0}, {"deep": 1}]))


def _run_deep(case, info):
    from ..deepchain import build_chain

    t, model, keys = build_chain(fan=bool(case["deep"]))
    ref = RefTrie(model)
    model_nibs = [nibbles_of(k) for k in model]
    root = impl("root_node", lambda: t.root_node)
    for k in keys[::13] + keys[-2:]:
        for path in (nibbles_of(k), nibbles_of(k)[:-1], nibbles_of(k) + (3,)):
            loc = ref.locate(path)
            got = impl("traverse-only-partial-errors", t.traverse, path, allowed=(TraversedPartialPath,))
            _check_outcome("traverse", got, loc, path, model_nibs, info)
            got2 = impl("traverse_from-only-partial-errors", t.traverse_from, root, path, allowed=(TraversedPartialPath,))
            _check_outcome("traverse_from(@())", got2, loc, path, model_nibs, info)
            # traversal is iterative by design: same answer for a caller deep in its own recursion
            got3 = impl("traverse-only-partial-errors", call_with_headroom, 100, lambda: t.traverse(path),
                        allowed=(TraversedPartialPath,))
            _check_outcome("traverse (100 frames of stack left)", got3, loc, path, model_nibs, info)
    info.count("deep_chain_levels", len(keys))
    info.label("deep-chain")
    info.nontrivial = len(keys) >= 100
    return info


def _as_nibbles(p):
    from trie.typing import Nibbles

    return Nibbles(p)


def _as_array(p):
    import array

    return array.array("B", p)


def _as_deque(p):
    import collections

    return collections.deque(p)


def _as_userlist(p):
    import collections

    return collections.UserList(p)


_CARRIERS = [list, _as_nibbles, _as_deque, _as_array, _as_userlist, tuple]


def _tt(x):
    return as_nibbles("well-formed-result", x, "nibbles in a traversal result")


def _describe(node):
    """Plain-data view of a HexaryTrieNode returned by the implementation."""
    expect("well-formed-result", all(hasattr(node, a) for a in ("node_type", "sub_segments", "value", "suffix", "raw"))
           and hasattr(node.node_type, "name") and isinstance(node.value, (bytes, bytearray)),
           lambda: f"got {node!r} instead of an annotated trie node")
    return {
        "type": node.node_type.name,
        "sub_segments": tuple(_tt(s) for s in node.sub_segments),
        "value": bytes(node.value),
        "suffix": _tt(node.suffix),
        "enc": rlp_encode(node.raw) if node.raw != b"" else rlp_encode(b""),
    }


def _want_node(n):
    return {
        "type": TYPE_NAME[n.kind],
        "sub_segments": tuple(n.sub_segments()),
        "value": n.value if n.kind in ("leaf", "branch") else b"",
        "suffix": tuple(n.suffix()),
        "enc": n.enc,
    }


BLANK_DESC = {"type": "BLANK", "sub_segments": (), "value": b"", "suffix": (), "enc": rlp_encode(b"")}


def _want_simulated(n, tail):
    if n.kind == "leaf":
        trimmed = tuple(n.path[len(tail):])
        raw = [hp(trimmed, True), n.value]
        return {"type": "LEAF", "sub_segments": (), "value": n.value, "suffix": trimmed,
                "enc": rlp_encode(raw)}
    trimmed = tuple(n.path[len(tail):])
    raw = [hp(trimmed, False), n.child.ref]
    return {"type": "EXTENSION", "sub_segments": (trimmed,), "value": b"", "suffix": (),
            "enc": rlp_encode(raw)}


def _check_outcome(what, got, loc, path, model_nibs, info, rebase=()):
    """got: result of impl(traverse...) ; loc: reference location of the absolute path."""
    starts = any(k[: len(path)] == tuple(path) for k in model_nibs)
    if loc[0] == "node":
        expect("node-expected", not isinstance(got, Raised),
               lambda: f"{what}: expected the {loc[1].kind} node at {path}, got {got!r}")
        expect_eq("annotated-node-canonical", _describe(got), _want_node(loc[1]), f"{what} at {path}")
        expect("blank-iff-no-key-below", starts, f"{what}: non-blank node at {path} but no key starts with it")
        info.label("outcome-node-" + loc[1].kind)
        return got
    if loc[0] == "blank":
        expect("blank-expected", not isinstance(got, Raised),
               lambda: f"{what}: expected a blank node at {path}, got {got!r}")
        expect_eq("blank-iff-no-key-below", _describe(got), BLANK_DESC, f"{what} at {path}")
        expect("blank-iff-no-key-below", not starts, f"{what}: blank at {path} although a key starts with it")
        info.label("outcome-blank")
        return got
    _, n, traversed, tail = loc
    expect("partial-path-expected", isinstance(got, Raised) and isinstance(got.exc, TraversedPartialPath),
           lambda: f"{what}: expected TraversedPartialPath inside the {n.kind} at {traversed}, got {got!r}")
    exc = got.exc
    expect_eq("partial-nibbles-traversed", _tt(exc.nibbles_traversed), tuple(traversed[len(rebase):]),
              f"{what} at {path}: nibbles_traversed")
    expect_eq("partial-untraversed-tail", _tt(exc.untraversed_tail), tuple(tail), f"{what} at {path}: untraversed_tail")
    expect_eq("partial-enclosing-node", _describe(exc.node), _want_node(n), f"{what} at {path}: enclosing node")
    expect_eq("partial-simulated-node", _describe(exc.simulated_node), _want_simulated(n, tail),
              f"{what} at {path}: simulated node")
    expect("blank-iff-no-key-below", starts, f"{what}: partial path at {path} but no key starts with it")
    info.label("outcome-partial-" + n.kind)
    return exc.simulated_node


def _hops(ref, prefix, segment):
    """Number of child hops a walk makes from the node position `prefix` along `segment`."""
    loc = ref.locate(prefix)
    if loc[0] == "partial":
        # simulated node: behaves like a leaf / extension with the trimmed path
        n, tail = loc[1], loc[3]
        rest = tuple(n.path[len(tail):])
        if n.kind == "leaf":
            return 0
        if tuple(segment[: len(rest)]) != rest:
            return 0
        return 1 + _hops_from(n.child, tuple(segment[len(rest):]))
    if loc[0] != "node":
        return 0
    return _hops_from(loc[1], tuple(segment))


def _hops_from(node, rem):
    hops = 0
    while rem and node.kind != "blank":
        if node.kind == "leaf":
            break
        if node.kind == "ext":
            if rem[: len(node.path)] == node.path:
                rem = rem[len(node.path):]
                node = node.child
                hops += 1
            else:
                break
        else:
            node = node.children[rem[0]]
            rem = rem[1:]
            hops += 1
    return hops


def run_case(case):
    """
    The same trie OBJECT is observed at several points of a history: after the initial
    build, after a committed squash_changes batch, after direct ops, and after its
    root_hash was pointed back at an earlier root.
    """
    info = Info()
    if "deep" in case:
        return _run_deep(case, info)
    db = FaultDB()
    t = impl("construct", HexaryTrie, db)
    model = {}
    for k, vs in case["items"]:
        v = resolve_val(vs, k)
        impl("set-never-raises", t.set, k, v)
        model[k] = v
    roots = [(bytes(t.root_hash), dict(model))]
    _observe(t, db, model, case, info)
    for step in case.get("later", []):
        kind = step[0]
        if kind == "reroot":
            root, old = roots[step[1] % len(roots)]
            t.root_hash = root
            model = dict(old)
            info.label("later-reroot")
        else:
            target, cm = t, None
            if kind == "batch":
                cm = impl("squash_changes", t.squash_changes)
                target = cm_enter("squash_changes", cm)
            for k, vs in step[1]:
                v = resolve_val(vs, k)
                impl("set-never-raises", target.set, k, v)
                model[k] = v
            for i in step[2]:
                if model:
                    k = sorted(model)[i % len(model)]
                    impl("delete-never-raises", target.delete, k)
                    del model[k]
            if cm is not None:
                cm_exit("squash_changes-exit", cm)
            info.label("later-" + kind)
        roots.append((bytes(t.root_hash), dict(model)))
        _observe(t, db, model, case, info)
    need = {"outcome-blank", "outcome-partial-leaf", "outcome-partial-ext"}
    info.nontrivial = need <= info.labels and any(
        lab in info.labels for lab in ("outcome-node-branch", "outcome-node-ext", "outcome-node-leaf")
    )
    return info


def _observe(t, db, model, case, info):
    ref = RefTrie(model)
    expect_eq("root-precondition", bytes(t.root_hash), ref.root_hash, "root (precondition)")
    model_nibs = [nibbles_of(k) for k in model]

    paths = {()}
    for kn in model_nibs:
        for i in range(len(kn) + 1):
            paths.add(kn[:i])
        paths.add(kn + (0,))
        paths.add(kn + (9,))
        if kn:
            paths.add(kn[:-1] + ((kn[-1] + 1) % 16,))
            paths.add(kn[:-1] + ((kn[-1] + 1) % 16, 3))
            if len(kn) > 2:
                paths.add(kn[: len(kn) // 2] + ((kn[len(kn) // 2] + 5) % 16,))
    for p in case["extra"]:
        paths.add(tuple(p))
    paths = sorted(paths)
    if len(paths) > 50:
        step = case["pick"] % 7 + 1
        keep = paths[:: (len(paths) // 50 + 1)]
        rot = paths[step::7][:20]
        paths = sorted(set(keep) | set(rot) | {()})
    info.count("paths", len(paths))

    root_node = impl("root_node", lambda: t.root_node)
    trav_root = impl("traverse-only-partial-errors", t.traverse, ())
    expect_eq("root_node-equals-traverse-empty", root_node, trav_root, "root_node vs traverse(())")

    # A caller may do what it likes with a result it was given (e.g. blank out the children it
    # has handled): later answers must still describe the trie. Scribble on a few results first.
    for path in paths[:: max(1, len(paths) // 6)]:
        r0 = impl("traverse-only-partial-errors", t.traverse, path, allowed=(TraversedPartialPath,))
        node0 = r0.exc.node if isinstance(r0, Raised) else r0
        if isinstance(getattr(node0, "raw", None), list):
            for i in range(len(node0.raw)):
                node0.raw[i] = b"" if i else b"\x20"
            info.label("scribbled-on-returned-node")
    rn = impl("root_node", lambda: t.root_node)
    if isinstance(getattr(rn, "raw", None), list) and len(rn.raw) == 17:
        rn.raw[0:16] = [b""] * 16
    for path in paths:
        loc = ref.locate(path)
        got = impl("traverse-only-partial-errors", t.traverse, path, allowed=(TraversedPartialPath,))
        _check_outcome("traverse", got, loc, path, model_nibs, info)
        # the same path as another Sequence[int] (list, deque, array, UserList, Nibbles)
        carrier = _CARRIERS[(len(path) + case["pick"]) % len(_CARRIERS)]
        got_c = impl("traverse-only-partial-errors", t.traverse, carrier(path), allowed=(TraversedPartialPath,))
        _check_outcome(f"traverse({carrier.__name__})", got_c, loc, path, model_nibs, info)
        # every split prefix + segment
        if len(path) <= 8:
            cuts = range(len(path) + 1)
        else:
            # node boundaries along the path, their neighbours, both ends and two picks
            cs = {0, 1, len(path), len(path) - 1, case["pick"] % (len(path) + 1),
                  (case["pick"] // 7) % (len(path) + 1)}
            for n in ref.path_nodes(path):
                for d in (-1, 0, 1):
                    if 0 <= len(n.prefix) + d <= len(path):
                        cs.add(len(n.prefix) + d)
            cuts = sorted(cs)
        for cut in cuts:
            prefix, segment = path[:cut], path[cut:]
            ploc = ref.locate(prefix)
            at = impl("traverse-only-partial-errors", t.traverse, prefix, allowed=(TraversedPartialPath,))
            simulated_start = isinstance(at, Raised)
            start = at.exc.simulated_node if simulated_start else at
            db.reads = 0
            got2 = impl("traverse_from-only-partial-errors", t.traverse_from, start, segment,
                        allowed=(TraversedPartialPath,))
            reads = db.reads
            if ploc[0] == "blank":
                # below a blank position everything is blank
                expect("traverse_from-equals-traverse", not isinstance(got2, Raised)
                       and _describe(got2) == BLANK_DESC,
                       lambda: f"traverse_from(blank@{prefix}, {segment}) gave {got2!r}")
                continue
            if simulated_start:
                # A simulated node "correctly describes the remainder": walking on from
                # it must arrive at the same effective node (returned or simulated).
                info.label("traverse_from-simulated-start")
                eff = got.exc.simulated_node if isinstance(got, Raised) else got
                eff2 = got2.exc.simulated_node if isinstance(got2, Raised) else got2
                expect_eq("simulated-node-describes-remainder", _describe(eff2), _describe(eff),
                          f"traverse_from(simulated@{prefix}, {segment}) vs traverse({path})")
            else:
                _check_outcome(f"traverse_from(@{prefix})", got2, loc, path, model_nibs, info,
                               rebase=prefix)
                if isinstance(got, Raised) != isinstance(got2, Raised):
                    expect("traverse_from-equals-traverse", False,
                           f"traverse({path}) and traverse_from(@{prefix}, {segment}) disagree")
                if not isinstance(got, Raised):
                    expect_eq("traverse_from-equals-traverse", got2, got,
                              f"traverse_from(@{prefix}, {segment}) vs traverse({path})")
            hops = _hops(ref, prefix, segment)
            expect("one-read-per-child-hop", reads <= hops,
                   lambda: f"traverse_from(@{prefix}, {segment}) read the db {reads} times for {hops} child hops")
            info.count("splits")
