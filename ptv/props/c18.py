"""C18 - invalid arguments are rejected up front and change nothing."""
from collections import defaultdict

from hypothesis import strategies as st

from trie import BinaryTrie, HexaryTrie
from trie import branches
from trie.exceptions import ValidationError
from trie.fog import HexaryTrieFog, TrieFrontierCache
from trie.smt import SparseMerkleProof, SparseMerkleTree, calc_root
from trie.typing import Nibbles

from .c11 import _prefixes as fog_prefixes
from ..hexcommon import histories
from ..faults import HookDB
from ..hexrun import norm_counts, play, run_history
from ..ref.bintrie import RefBin
from ..ref.smt import RefSMT
from ..util import Abort, Info, Raised, cm_enter, cm_exit, expect, expect_eq, impl

ID = "C18"
LEVEL = "exploration"
BUDGET = {"quick": 8000, "thorough": 300000}
RULE = (
    "case = a valid history on one target (HexaryTrie prune on/off and inside/outside "
    "squash_changes; BinaryTrie; SparseMerkleTree; SparseMerkleProof; HexaryTrieFog; "
    "static helpers) interrupted at a drawn point by ONE invalid call from a table "
    "(entry point x argument position x bad kind): non-bytes in {str, int, None, "
    "bytearray, memoryview, list, tuple, float, bool}; wrong lengths (SMT keys +-1 and "
    "empty, from_db root != 32, calc_root / proof branch +-1, proof.update key); "
    "key_size in {0, 33, -1}; at_root on a pruning trie; ref_count= on a non-pruning "
    "trie; malformed nibbles {int, str, bytes, (16,), (-1,), ('a',), (None,), (1.5,)} "
    "through Nibbles / traverse / traverse_from / explore / mark_all_complete / "
    "nearest_*. Oracle: the call raises the stated type (ValidationError; ValueError "
    "for ref_count; TypeError/ValueError for nibbles); the snapshot (root, db dict, "
    "normalised ref counts, scratch view, proof value/branch, fog prefixes) is identical "
    "before and after; the rest of the history then agrees with the model / reference. "
    "Exhaustive part: the complete table on a fixed non-empty state per target. "
    "Non-trivial = the invalid call came after a non-empty history; distinct = distinct "
    "(target, entry point, argument position, bad kind, flags, history) JSON."
    ' Added after the seeded rounds: Nibbles.__add__, TrieFrontierCache entry points, HexaryTrieFog.deserialize with leaf-flagged prefixes, empty bytearray / memoryview / str values, small and empty bytearrays as nibble paths, and invalid calls made from a database callback during a valid write.'
)
LEVEL_TEXT = (
    "Exploration: the full (entry point x position x bad kind) table is enumerated on a "
    "fixed state, and generated histories are interrupted by one invalid call at a "
    "drawn point, with snapshot equality and a model-checked continuation."
)
LEVEL_NOTE = "Not asserted (the code does not document it): type of the root_hash argument of the trie.branches helpers, the value argument of SparseMerkleProof.update - for these only 'state unchanged' is checked."
TECHNIQUE = "table-driven property-based testing: invalid call injected into generated histories; snapshot equality + model continuation; exhaustive table on fixed states"

BAD_BYTES = ["str", "int", "none", "bytearray", "memoryview", "list", "tuple", "float", "bool",
             "bytearray-empty", "memoryview-empty", "str-empty"]
BAD_NIBBLES = ["int", "str", "bytes", "n16", "n-1", "na", "nnone", "nfloat", "bytearray-small",
               "bytearray-empty", "bytes-empty"]
NIB_ERR = (TypeError, ValueError)


def bad_bytes(kind, good=b"\x12\x34"):
    return {
        "str": good.decode("latin1"), "int": 5, "none": None, "bytearray": bytearray(good),
        "memoryview": memoryview(good), "list": list(good), "tuple": tuple(good),
        "float": 1.5, "bool": True,
        # things that compare equal to b"" without being bytes
        "bytearray-empty": bytearray(), "memoryview-empty": memoryview(b""), "str-empty": "",
    }[kind]


def bad_nibbles(kind):
    return {"int": 7, "str": "ab", "bytes": b"ab", "n16": (1, 16), "n-1": (-1,), "na": ("a",),
            "nnone": (None,), "nfloat": (1.5,), "bytearray-small": bytearray(b"\x01\x02"),
            "bytearray-empty": bytearray(), "bytes-empty": b""}[kind]


# entry tables: name -> (bad kinds, expected exception types)
HEX_ENTRIES = {
    "get.key": (BAD_BYTES, ValidationError), "getitem.key": (BAD_BYTES, ValidationError),
    "exists.key": (BAD_BYTES, ValidationError), "contains.key": (BAD_BYTES, ValidationError),
    "set.key": (BAD_BYTES, ValidationError), "set.value": (BAD_BYTES, ValidationError),
    "setitem.key": (BAD_BYTES, ValidationError), "setitem.value": (BAD_BYTES, ValidationError),
    "delete.key": (BAD_BYTES, ValidationError), "delitem.key": (BAD_BYTES, ValidationError),
    "get_proof.key": (BAD_BYTES, ValidationError),
    "init.root_hash": (BAD_BYTES, ValidationError),
    "at_root.root_hash": (BAD_BYTES, ValidationError),
    "at_root.pruning": (["-"], ValidationError),
    "init.ref_count-nonpruning": (["-"], ValueError),
    "get_from_proof.root_hash": (BAD_BYTES, ValidationError),
    "get_from_proof.key": (BAD_BYTES, ValidationError),
    "traverse.nibbles": (BAD_NIBBLES, NIB_ERR),
    "traverse_from.nibbles": (BAD_NIBBLES, NIB_ERR),
    # the invalid call is made from inside a database access of another, valid write that is in
    # progress on the same trie (a database object that calls back into user code)
    "reentrant.set.value": (["none", "str", "int"], ValidationError),
    "reentrant.delete.key": (["none", "str", "int"], ValidationError),
}
BIN_ENTRIES = {
    "get.key": (BAD_BYTES, ValidationError), "exists.key": (BAD_BYTES, ValidationError),
    "contains.key": (BAD_BYTES, ValidationError), "getitem.key": (BAD_BYTES, ValidationError),
    "set.key": (BAD_BYTES, ValidationError), "set.value": (BAD_BYTES, ValidationError),
    "setitem.value": (BAD_BYTES, ValidationError),
    "delete.key": (BAD_BYTES, ValidationError), "delitem.key": (BAD_BYTES, ValidationError),
    "delete_subtrie.key": (BAD_BYTES, ValidationError),
    "init.root_hash": (BAD_BYTES, ValidationError),
    "check_if_branch_exist.key": (BAD_BYTES, ValidationError),
    "get_branch.key": (BAD_BYTES, ValidationError),
    "get_witness_for_key_prefix.key": (BAD_BYTES, ValidationError),
    "if_branch_valid.key": (BAD_BYTES, ValidationError),
    "if_branch_valid.node": (["str", "int", "float"], (ValidationError, TypeError)),
    "helpers.root_hash": (["str", "int", "none"], None),  # only "state unchanged"
}
SMT_LEN = ["short", "long", "empty"]
SMT_ENTRIES = {
    "get.key": (BAD_BYTES + SMT_LEN, ValidationError), "getitem.key": (BAD_BYTES + SMT_LEN, ValidationError),
    "exists.key": (BAD_BYTES + SMT_LEN, ValidationError), "contains.key": (BAD_BYTES + SMT_LEN, ValidationError),
    "branch.key": (BAD_BYTES + SMT_LEN, ValidationError),
    "set.key": (BAD_BYTES + SMT_LEN, ValidationError), "set.value": (BAD_BYTES, ValidationError),
    "setitem.key": (BAD_BYTES + SMT_LEN, ValidationError), "setitem.value": (BAD_BYTES, ValidationError),
    "delete.key": (BAD_BYTES + SMT_LEN, ValidationError), "delitem.key": (BAD_BYTES + SMT_LEN, ValidationError),
    "from_db.root_hash": (BAD_BYTES + ["short", "long"], ValidationError),
    "init.key_size": (["0", "33", "-1"], ValidationError),
    "from_db.key_size": (["0", "33", "-1"], ValidationError),
    "calc_root.key": (BAD_BYTES, ValidationError), "calc_root.value": (BAD_BYTES, ValidationError),
    "calc_root.branch": (["short", "long"], ValidationError),
    "proof.init.key": (BAD_BYTES, ValidationError), "proof.init.value": (BAD_BYTES, ValidationError),
    "proof.init.branch": (["short", "long"], ValidationError),
    "proof.update.key": (BAD_BYTES + SMT_LEN, ValidationError),
    "proof.update.value": (["str", "int"], None),  # not validated: only "state unchanged"
}
FOG_ENTRIES = {
    "Nibbles": (BAD_NIBBLES, NIB_ERR),
    "Nibbles.add": (BAD_NIBBLES, NIB_ERR),
    "explore.prefix": (BAD_NIBBLES, NIB_ERR), "explore.segment": (BAD_NIBBLES, NIB_ERR),
    "mark_all_complete.prefix": (BAD_NIBBLES, NIB_ERR),
    "nearest_unknown.key": (BAD_NIBBLES, NIB_ERR), "nearest_right.key": (BAD_NIBBLES, NIB_ERR),
    "cache.get.prefix": (BAD_NIBBLES, NIB_ERR), "cache.delete.prefix": (BAD_NIBBLES, NIB_ERR),
    "cache.add.prefix": (BAD_NIBBLES, NIB_ERR), "cache.add.segment": (BAD_NIBBLES, NIB_ERR),
    # a serialised fog whose prefixes are not plain nibble sequences (leaf-flagged hex-prefix
    # bytes carry the pseudo-nibble 16)
    "deserialize.prefix": (["hp-flag-2", "hp-flag-3", "hp-flag-3-long"], NIB_ERR),
}
TABLES = {"hexary": HEX_ENTRIES, "binary": BIN_ENTRIES, "smt": SMT_ENTRIES, "fog": FOG_ENTRIES}


def _bad_specs():
    out = []
    for target, table in TABLES.items():
        for entry, (kinds, _) in table.items():
            for kind in kinds:
                out.append((target, entry, kind))
    return out


ALL_BAD = _bad_specs()


def strategy(tier):
    hist = histories(tier, max_ops=8 if tier == "quick" else 20, batches=True, aborts=True)
    simple = histories(tier, max_ops=6, batches=False)
    return st.fixed_dictionaries(
        {
            "bad": st.sampled_from(ALL_BAD),
            "prune": st.booleans(),
            "in_batch": st.booleans(),
            "pre": hist,
            "inner": simple,
            "post": hist,
            "n": st.integers(0, 50),
        }
    )


def exhaustive(tier):
    fixed = [("set", ("lit", b"\x12\x34"), ("lit", b"v" * 33), 0),
             ("set", ("lit", b"\x12\x35"), ("lit", b"w"), 1),
             ("set", ("lit", b""), ("lit", b"e" * 40), 0)]

    def gen():
        for target, entry, kind in ALL_BAD:
            for prune in (False, True):
                for in_batch in (False, True):
                    if target != "hexary" and (prune or in_batch):
                        continue
                    yield {"bad": (target, entry, kind), "prune": prune, "in_batch": in_batch,
                           "pre": fixed, "inner": fixed[:1], "post": fixed[1:2], "n": 1}

    yield ("complete table (target x entry point x position x bad kind) on a fixed non-empty state", gen())


def _refused(entry, kind, r, expected):
    if expected is None:
        return
    expect("invalid-argument-refused", isinstance(r, Raised),
           lambda: f"{entry} with bad argument {kind!r} was accepted and returned {r!r}")
    expect("refusal-has-stated-type", isinstance(r.exc, expected),
           lambda: f"{entry} with bad argument {kind!r} raised {type(r.exc).__name__}: {r.exc} "
                   f"(expected {expected})")


# ------------------------------------------------------------------ hexary

def _hex_snapshot(t, outer_db):
    snap = {"root": bytes(t.root_hash), "db": dict(outer_db)}
    if t.is_pruning:
        snap["counts"] = norm_counts(t)
    if hasattr(t.db, "wrapped_db"):
        snap["scratch"] = dict(t.db.copy())
    return snap


def _hex_bad_call(t, entry, kind):
    key, val = b"\x12\x34", b"value"
    E = (Exception,)
    if entry.endswith(".nibbles"):
        bad = bad_nibbles(kind)
        if entry == "traverse.nibbles":
            return impl(entry, t.traverse, bad, allowed=E)
        root = impl("root_node", lambda: t.root_node)
        return impl(entry, t.traverse_from, root, bad, allowed=E)
    if entry == "at_root.pruning":
        def call():
            with t.at_root(t.root_hash) as snap:
                return snap.get(key)
        return impl(entry, call, allowed=E)
    if entry == "init.ref_count-nonpruning":
        return impl(entry, HexaryTrie, {}, prune=False, ref_count=defaultdict(int), allowed=E)
    bad = bad_bytes(kind, key)
    calls = {
        "get.key": lambda: t.get(bad), "getitem.key": lambda: t[bad],
        "exists.key": lambda: t.exists(bad), "contains.key": lambda: bad in t,
        "set.key": lambda: t.set(bad, val), "set.value": lambda: t.set(key, bad_bytes(kind, val)),
        "setitem.key": lambda: t.__setitem__(bad, val),
        "setitem.value": lambda: t.__setitem__(key, bad_bytes(kind, val)),
        "delete.key": lambda: t.delete(bad), "delitem.key": lambda: t.__delitem__(bad),
        "get_proof.key": lambda: t.get_proof(bad),
        "init.root_hash": lambda: HexaryTrie(t.db, bad_bytes(kind, bytes(t.root_hash))),
        "get_from_proof.root_hash": lambda: HexaryTrie.get_from_proof(bad_bytes(kind, bytes(t.root_hash)), key, []),
        "get_from_proof.key": lambda: HexaryTrie.get_from_proof(bytes(t.root_hash), bad, [t.root_node.raw] if t.root_node.raw else []),
    }
    if entry == "at_root.root_hash":
        def call():
            with t.at_root(bad_bytes(kind, bytes(t.root_hash))) as snap:
                return snap.get(key)
        return impl(entry, call, allowed=E)
    return impl(entry, calls[entry], allowed=E)


def _run_reentrant(case, info):
    _, entry, kind = case["bad"]
    prune = bool(case["prune"])
    db = HookDB()
    t = impl("construct", HexaryTrie, db, prune=prune)
    model = {}
    play(t, model, case["pre"])
    nested = []

    def hook(_kind, _key):
        try:
            if entry == "reentrant.set.value":
                nested.append(t.set(b"\x12\x34", bad_bytes(kind, b"v")))
            else:
                nested.append(t.delete(bad_bytes(kind, b"\x12\x34")))
        except Exception as exc:  # noqa: BLE001 - recorded and judged below
            nested.append(exc)

    db.arm(hook, case["n"] % 3)
    outer_key, outer_val = b"\x12\x34\x56", b"outer" * 8
    impl("set-never-raises", t.set, outer_key, outer_val)  # the valid write in progress
    db.hook = None
    model[outer_key] = outer_val
    if nested:
        r = Raised(nested[0]) if isinstance(nested[0], Exception) else nested[0]
        _refused(entry, kind, r, ValidationError)
        info.label("re-entrant-invalid-call")
    checks = {"map", "root"} | ({"prune"} if prune else set())
    run_history(None, checks, info, state=(t, db, model), ops=case["post"])
    return bool(case["pre"])


def _run_hexary(case, info):
    _, entry, kind = case["bad"]
    if entry.startswith("reentrant."):
        return _run_reentrant(case, info)
    prune = bool(case["prune"])
    if entry == "at_root.pruning":
        prune = True
    if entry == "at_root.root_hash":
        prune = False
    db = {}
    t = impl("construct", HexaryTrie, db, prune=prune)
    model = {}
    play(t, model, case["pre"])
    checks = {"map", "root"} | ({"prune"} if prune else set())
    expected = HEX_ENTRIES[entry][1]
    in_batch = bool(case["in_batch"]) and entry != "at_root.pruning"
    if in_batch:
        cm = impl("squash_changes", t.squash_changes)
        b = cm_enter("squash_changes", cm)
        bmodel = dict(model)
        inner = case["inner"]
        cut = case["n"] % (len(inner) + 1)
        play(b, bmodel, inner[:cut])
        before = _hex_snapshot(b, db)
        r = _hex_bad_call(b, entry, kind)
        _refused(entry, kind, r, expected)
        after = _hex_snapshot(b, db)
        for part in before:
            expect_eq("refusal-changes-nothing", after[part], before[part], f"{part} after refused {entry}({kind})")
        play(b, bmodel, inner[cut:])
        cm_exit("squash_changes-exit", cm)
        model = bmodel
        info.label("in-batch")
    else:
        before = _hex_snapshot(t, db)
        r = _hex_bad_call(t, entry, kind)
        _refused(entry, kind, r, expected)
        after = _hex_snapshot(t, db)
        for part in before:
            expect_eq("refusal-changes-nothing", after[part], before[part], f"{part} after refused {entry}({kind})")
    run_history(None, checks, info, state=(t, db, model), ops=case["post"])
    return bool(case["pre"])


# ------------------------------------------------------------------ binary

def _run_binary(case, info):
    _, entry, kind = case["bad"]
    db = {}
    t = impl("construct", BinaryTrie, db)
    model = {}

    def put(k, v):
        if not any(s != k and (s.startswith(k) or k.startswith(s)) for s in model) and k:
            impl("set", t.set, k, v)
            model[k] = v

    keys = [b"\x12\x34", b"\x12\x35", b"\xff", b"\x12\x34\x56", b"\x00\x00"]
    for i in range(case["n"] % 5 + 1):
        put(keys[i], bytes([i + 1]) * (i + 1))
    key = b"\x12\x34"
    root = bytes(t.root_hash)
    E = (Exception,)
    before = (root, dict(db))
    expected = BIN_ENTRIES[entry][1]
    if entry == "helpers.root_hash":
        badroot = bad_bytes(kind, root)
        for fn in (lambda: branches.check_if_branch_exist(db, badroot, key),
                   lambda: branches.get_branch(db, badroot, key),
                   lambda: branches.get_witness_for_key_prefix(db, badroot, key),
                   lambda: branches.get_trie_nodes(db, badroot)):
            impl(entry, fn, allowed=E)
        r = None
    elif entry == "if_branch_valid.node":
        br = list(impl("get_branch", branches.get_branch, db, root, key))
        br[0] = {"str": "abc", "int": 5, "float": 1.5}[kind]
        r = impl(entry, branches.if_branch_valid, br, root, key, model.get(key), allowed=E)
    else:
        bad = bad_bytes(kind, key)
        calls = {
            "get.key": lambda: t.get(bad), "exists.key": lambda: t.exists(bad),
            "contains.key": lambda: bad in t, "getitem.key": lambda: t[bad],
            "set.key": lambda: t.set(bad, b"v"), "set.value": lambda: t.set(key, bad_bytes(kind, b"v")),
            "setitem.value": lambda: t.__setitem__(key, bad_bytes(kind, b"v")),
            "delete.key": lambda: t.delete(bad), "delitem.key": lambda: t.__delitem__(bad),
            "delete_subtrie.key": lambda: t.delete_subtrie(bad),
            "init.root_hash": lambda: BinaryTrie(db, bad_bytes(kind, root)),
            "check_if_branch_exist.key": lambda: branches.check_if_branch_exist(db, root, bad),
            "get_branch.key": lambda: branches.get_branch(db, root, bad),
            "get_witness_for_key_prefix.key": lambda: branches.get_witness_for_key_prefix(db, root, bad),
            "if_branch_valid.key": lambda: branches.if_branch_valid(
                branches.get_branch(db, root, key), root, bad, b"claimed"),
        }
        r = impl(entry, calls[entry], allowed=E)
    _refused(entry, kind, r, expected)
    expect_eq("refusal-changes-nothing", (bytes(t.root_hash), dict(db)), before, f"root/db after refused {entry}({kind})")
    # continuation
    put(b"\x77\x01", b"after")
    impl("delete", t.delete, keys[0])
    model.pop(keys[0], None)
    expect_eq("continuation-agrees-with-model", bytes(t.root_hash), RefBin(model).root_hash, "root after continuing")
    for k in model:
        expect_eq("continuation-agrees-with-model", impl("get", t.get, k), model[k], f"get({k!r}) after continuing")
    return True


# ------------------------------------------------------------------ smt / proof

def _run_smt(case, info):
    _, entry, kind = case["bad"]
    ks = [1, 2, 4][case["n"] % 3]
    default = [b"", b"d"][case["n"] % 2]
    tree = impl("construct", SparseMerkleTree, key_size=ks, default=default)
    ref = RefSMT(ks, default)
    model = {}
    good = (b"\x12\x34\x56\x78")[:ks]
    other = (b"\x92\x34\x56\x79")[:ks]
    impl("set", tree.set, good, b"one")
    model[good] = b"one"
    updates = impl("set", tree.set, other, b"two")
    model[other] = b"two"
    proof = impl("construct-proof", SparseMerkleProof, good, b"one", impl("branch", tree.branch, good))
    impl("proof.update", proof.update, other, b"two", updates)
    branch = tuple(impl("branch", tree.branch, good))
    E = (Exception,)

    def badkey():
        if kind == "short":
            return good[:-1]
        if kind == "long":
            return good + b"\x00"
        if kind == "empty":
            return b""
        return bad_bytes(kind, good)

    def badlen(seq):
        return seq[:-1] if kind == "short" else tuple(seq) + (b"\x00" * 32,)

    def badsize():
        return int(kind)

    before = (bytes(tree.root_hash), dict(tree.db), bytes(proof.value), tuple(proof.branch))
    calls = {
        "get.key": lambda: tree.get(badkey()), "getitem.key": lambda: tree[badkey()],
        "exists.key": lambda: tree.exists(badkey()), "contains.key": lambda: badkey() in tree,
        "branch.key": lambda: tree.branch(badkey()),
        "set.key": lambda: tree.set(badkey(), b"v"), "set.value": lambda: tree.set(good, bad_bytes(kind, b"v")),
        "setitem.key": lambda: tree.__setitem__(badkey(), b"v"),
        "setitem.value": lambda: tree.__setitem__(good, bad_bytes(kind, b"v")),
        "delete.key": lambda: tree.delete(badkey()), "delitem.key": lambda: tree.__delitem__(badkey()),
        "from_db.root_hash": lambda: SparseMerkleTree.from_db(
            tree.db, (bytes(tree.root_hash)[:-1] if kind == "short" else bytes(tree.root_hash) + b"\x00")
            if kind in ("short", "long") else bad_bytes(kind, bytes(tree.root_hash)), ks, default),
        "init.key_size": lambda: SparseMerkleTree(key_size=badsize()),
        "from_db.key_size": lambda: SparseMerkleTree.from_db(tree.db, bytes(tree.root_hash), badsize(), default),
        "calc_root.key": lambda: calc_root(bad_bytes(kind, good), b"one", branch),
        "calc_root.value": lambda: calc_root(good, bad_bytes(kind, b"one"), branch),
        "calc_root.branch": lambda: calc_root(good, b"one", badlen(branch)),
        "proof.init.key": lambda: SparseMerkleProof(bad_bytes(kind, good), b"one", branch),
        "proof.init.value": lambda: SparseMerkleProof(good, bad_bytes(kind, b"one"), branch),
        "proof.init.branch": lambda: SparseMerkleProof(good, b"one", badlen(branch)),
        "proof.update.key": lambda: proof.update(badkey(), b"v", updates),
    }
    expected = SMT_ENTRIES[entry][1]
    if entry == "proof.update.value":
        clone = impl("construct-proof", SparseMerkleProof, good, proof.value, proof.branch)
        impl(entry, clone.update, other, bad_bytes(kind, b"v"), updates, allowed=E)
        r = None
    else:
        r = impl(entry, calls[entry], allowed=E)
    _refused(entry, kind, r, expected)
    after = (bytes(tree.root_hash), dict(tree.db), bytes(proof.value), tuple(proof.branch))
    expect_eq("refusal-changes-nothing", after, before, f"tree/proof state after refused {entry}({kind})")
    # continuation: tree and proof keep working and agree with the reference
    upd = impl("set", tree.set, other, b"three")
    model[other] = b"three"
    impl("proof.update", proof.update, other, b"three", upd)
    upd = impl("delete", tree.delete, good)
    model[good] = default
    impl("proof.update", proof.update, good, default, upd)
    expect_eq("continuation-agrees-with-model", bytes(tree.root_hash), ref.root(model), "tree root after continuing")
    expect_eq("continuation-agrees-with-model", bytes(proof.root_hash), ref.root(model), "proof root after continuing")
    return True


# ------------------------------------------------------------------ fog / nibbles

def _run_fog(case, info):
    _, entry, kind = case["bad"]
    fog = impl("construct", HexaryTrieFog)
    fog = impl("explore", fog.explore, (), [(1,), (2, 3), (15,)])
    n = case["n"] % 3
    if n >= 1:
        fog = impl("explore", fog.explore, (1,), [(0,), (7,)])
    if n >= 2:
        fog = impl("mark_all_complete", fog.mark_all_complete, [(15,)])
    model = fog_prefixes(fog)
    before = (set(model), impl("serialize", fog.serialize))
    if entry == "deserialize.prefix":
        blob = {"hp-flag-2": b"HexaryTrieFog:[b' \\x12']", "hp-flag-3": b"HexaryTrieFog:[b'1']",
                "hp-flag-3-long": b"HexaryTrieFog:[b'\\x00#', b'1#']"}[kind]
        r = impl(entry, HexaryTrieFog.deserialize, blob, allowed=(Exception,))
        _refused(entry, kind, r, NIB_ERR)
        return True
    bad = bad_nibbles(kind)
    E = (Exception,)
    cache = impl("construct", TrieFrontierCache)
    ht = impl("construct", HexaryTrie, {})
    impl("set", ht.set, b"\x12", b"v")
    root_node = impl("root_node", lambda: ht.root_node)
    impl("cache.add", cache.add, (), root_node, [(1,), (2, 3)])
    calls = {
        "Nibbles": lambda: Nibbles(bad),
        "Nibbles.add": lambda: Nibbles((1, 2)) + bad,
        "explore.prefix": lambda: fog.explore(bad, [(1,)]),
        "explore.segment": lambda: fog.explore((2, 3), [(4,), bad]),
        "mark_all_complete.prefix": lambda: fog.mark_all_complete([(2, 3), bad]),
        "nearest_unknown.key": lambda: fog.nearest_unknown(bad),
        "nearest_right.key": lambda: fog.nearest_right(bad),
        "cache.get.prefix": lambda: cache.get(bad),
        "cache.delete.prefix": lambda: cache.delete(bad),
        "cache.add.prefix": lambda: cache.add(bad, root_node, [(1,)]),
        "cache.add.segment": lambda: cache.add((), root_node, [(1,), bad]),
    }
    r = impl(entry, calls[entry], allowed=E)
    _refused(entry, kind, r, FOG_ENTRIES[entry][1])
    after = (fog_prefixes(fog), impl("serialize", fog.serialize))
    expect_eq("refusal-changes-nothing", after, before, f"fog after refused {entry}({kind})")
    f2 = impl("explore", fog.explore, (2, 3), [(4,)])
    expect_eq("continuation-agrees-with-model", fog_prefixes(f2),
              (model - {(2, 3)}) | {(2, 3, 4)}, "fog after continuing")
    return True


def run_case(case):
    info = Info()
    target, entry, kind = case["bad"]
    info.label(target)
    info.label(f"{target}:{entry}")
    info.label("kind:" + kind)
    if target == "hexary":
        nonempty = _run_hexary(case, info)
    elif target == "binary":
        nonempty = _run_binary(case, info)
    elif target == "smt":
        nonempty = _run_smt(case, info)
    else:
        nonempty = _run_fog(case, info)
    info.nontrivial = nonempty
    return info
