"""C12 - BinaryTrie is a map with a canonical, history-independent root."""
import itertools

from hypothesis import strategies as st

from trie import BinaryTrie
from trie.exceptions import NodeOverrideError

from ..faults import HookDB
from ..ref.bintrie import BLANK, RefBin, bits_of
from ..util import Info, Raised, expect, expect_eq, impl

ID = "C12"
ATHERIS = True  # thorough tier: coverage-guided second engine over the same strategy/run_case
LEVEL = "exploration"
BUDGET = {"quick": 12000, "thorough": 600000}
RULE = (
    "case = history of set / set-empty / delete / delete_subtrie (method and dict syntax) "
    "on non-empty keys. Keys are bit-structure-directed: a base key of 1-4 bytes (thorough "
    "also 32) with 0-2 bits flipped at drawn positions (uniform, extra weight around byte "
    "boundaries and the last bit), optional tail; arguments of delete / delete_subtrie are "
    "mostly index-based (i-th stored key truncated to j bytes / extended by a byte). "
    "Oracle: dict model with the prefix-freeness rule (storing under a proper prefix / "
    "extension of a stored key must raise NodeOverrideError, otherwise must succeed; "
    "deleting an absent key is a no-op or NodeOverrideError; delete_subtrie(p) removes "
    "exactly the keys starting with p and may be refused only if there are none); any "
    "raising call leaves root and reads unchanged; after every step root_hash == the "
    "reference canonical binary trie root (built from the set), get/exists/[]/in agree "
    "for stored keys, byte prefixes, extensions and bit flips, and all earlier roots "
    "(ledger) still read back their model from the same db. Exhaustive part: all op "
    "sequences of length <=3 (quick) / <=4 (thorough) over an 8-key universe. Non-trivial "
    "= >=1 refusal, >=1 delete that compresses a branch, >=1 set that splits a kv node. "
    "Distinct = canonical JSON."
    ' Added after the seeded rounds: old roots are re-opened from an equal but distinct bytes object and probed with absent keys; the same object is re-pointed at earlier roots; sparse-lookup mode; values equal to the hash of a node in the same db; the database may call back from a write and update a second BinaryTrie; a fixed 300-level deep comb of 40-byte keys.'
)
LEVEL_TEXT = (
    "Exploration by model-based + differential property testing: dict model with the "
    "prefix-free rule and an independent canonical binary-trie builder (anchored to the "
    "README's node bytes), compared after every step; bounded-exhaustive op sequences "
    "over a universe that contains every kv/branch/leaf boundary case."
)
LEVEL_NOTE = "Domain = non-empty keys (as stated). Trusted: reference binary trie (README KAT), keccak."
TECHNIQUE = "model-based property testing (prefix-free dict model) + differential root vs reference binary trie + bounded-exhaustive op sequences"

NODE_HASH = b"\xff<hash-of-db-node>"


def resolve_bin_val(val, db):
    if isinstance(val, bytes) and val.startswith(NODE_HASH):
        keys = sorted(db)
        return keys[val[-1] % len(keys)] if keys else b"first"
    return val


UNIVERSE = [b"\x00", b"\x01", b"\x40", b"\x80", b"\x00\x00", b"\x00\x01", b"\x00\x40", b"\x00\x80"]
BASES = [b"\x12", b"\x12\x34", b"\x00\x00", b"\xff\xff\xff", b"\x12\x34\x56\x78", b"\x80\x00"]
BASE32 = bytes(range(100, 132))


def _flip(base, positions, tail):
    bits = list(bits_of(base))
    for p in positions:
        bits[p % len(bits)] ^= 1
    out = bytearray()
    for i in range(0, len(bits), 8):
        byte = 0
        for b in bits[i: i + 8]:
            byte = (byte << 1) | b
        out.append(byte)
    return bytes(out) + tail


def keys(tier):
    bases = BASES + ([BASE32] if tier != "quick" else [])
    pos = st.one_of(st.integers(0, 255), st.sampled_from([7, 8, 9, 15, 16, 17, -1, -1, -2, 0]))
    directed = st.builds(_flip, st.sampled_from(bases), st.lists(pos, max_size=2),
                         st.one_of(st.just(b""), st.just(b""), st.binary(min_size=1, max_size=1)))
    return st.one_of(directed, directed, directed, st.binary(min_size=1, max_size=3))


def strategy(tier):
    k = keys(tier)
    v = st.one_of(st.binary(min_size=1, max_size=4), st.sampled_from([b"v", b"value" * 8]),
                  # resolved at run time: the hash of the i-th node currently in the db
                  st.integers(0, 30).map(lambda i: NODE_HASH + bytes([i])))
    idx = st.tuples(st.just("idx"), st.integers(0, 40), st.integers(0, 40),
                    st.one_of(st.none(), st.integers(0, 255)))
    sib = st.tuples(st.just("sib"), st.integers(0, 40),
                    st.one_of(st.integers(0, 255), st.sampled_from([7, 8, 9, 15, 16, 17, -1, -2, 0])),
                    st.none())
    cp = st.tuples(st.just("cp"), st.integers(0, 40), st.integers(0, 40), st.none())
    karg = st.one_of(st.tuples(st.just("lit"), k), idx, idx)
    sarg = st.one_of(st.tuples(st.just("lit"), k), idx, cp, cp)
    syn = st.integers(0, 1)
    op = st.one_of(
        st.tuples(st.just("set"), st.tuples(st.just("lit"), k), v, syn),
        st.tuples(st.just("set"), st.tuples(st.just("lit"), k), v, syn),
        st.tuples(st.just("set"), st.tuples(st.just("lit"), k), v, syn),
        st.tuples(st.just("set"), karg, v, syn),
        st.tuples(st.just("set"), sib, v, syn),
        st.tuples(st.just("set"), sib, v, syn),
        st.tuples(st.just("set"), sib, v, syn),
        st.tuples(st.just("sete"), karg, st.just(b""), syn),
        st.tuples(st.just("del"), karg, st.just(b""), syn),
        st.tuples(st.just("del"), karg, st.just(b""), syn),
        st.tuples(st.just("subtrie"), sarg, st.just(b""), syn),
        st.tuples(st.just("subtrie"), sarg, st.just(b""), syn),
        # point the same object at an earlier root (index into the ledger) and go on from there
        st.tuples(st.just("reroot"), st.tuples(st.just("lit"), st.just(b"\x00")), st.just(b""), st.integers(0, 40)),
    )
    # a leading marker op switches the case to sparse look-ups (see run_case)
    sparse = st.tuples(st.just("sparse"), st.tuples(st.just("lit"), st.just(b"\x00")), st.just(b""), st.just(0))
    # add a neighbour of a stored key and take it away again (by delete, by an empty value or by
    # delete_subtrie): the trie passes through intermediate nodes that older roots still use
    last = ("last", 0, 0, None)
    visit = st.builds(lambda a, v, how, syn: [("set", a, v, syn), (how, last, b"", 1 - syn)],
                      st.one_of(sib, sib, st.tuples(st.just("lit"), k)), v,
                      st.sampled_from(["del", "del", "sete", "subtrie"]), syn)
    unit = st.one_of(*([op.map(lambda o: [o])] * 11 + [comb_fragments(), visit, visit]))
    body = st.lists(unit, min_size=3, max_size=20 if tier == "quick" else 60).map(
        lambda frags: [o for f in frags for o in f])
    return st.one_of(body, body, st.builds(lambda m, b: [m] + b, sparse, body))


def _comb(prefix, target, filler, nbytes, order, syn):
    """Keys prefix+T and, for every bit position i of T, a key that leaves T's path at bit i:
    the look-up of `prefix` then ends on a spine made of branch nodes only, down to a leaf."""
    nbits = 8 * nbytes
    t = int.from_bytes(target, "big") & ((1 << nbits) - 1)
    f = int.from_bytes(filler, "big") & ((1 << nbits) - 1)
    tails = [t]
    for i in range(nbits):
        low = nbits - 1 - i  # number of bits below position i
        tails.append((((t >> low) ^ 1) << low) | (f & ((1 << low) - 1)))
    tails = [tails[j % len(tails)] for j in order] + tails  # drawn order first, then the rest
    seen, out = set(), []
    for x in tails:
        if x not in seen:
            seen.add(x)
            out.append(("set", ("lit", prefix + x.to_bytes(nbytes, "big")), b"c%d" % (x & 0xFF), syn))
    return out


def comb_fragments():
    target = st.one_of(st.sampled_from([b"\xff\xff", b"\x00\x00", b"\xff\x00", b"\x00\xff"]),
                       st.binary(min_size=2, max_size=2))
    return st.builds(
        _comb,
        st.sampled_from([b"", b"\x12", b"\x12\x34", b"\x00", b"\xff", b"\x80\x00"]),
        target, st.binary(min_size=2, max_size=2), st.sampled_from([1, 1, 1, 2]),
        st.lists(st.integers(0, 16), max_size=4), st.integers(0, 1),
    )


def exhaustive(tier):
    n = 3 if tier == "quick" else 4
    ops = (
        [("set", ("lit", k), b"v", 0) for k in UNIVERSE]
        + [("del", ("lit", k), b"", 1) for k in UNIVERSE]
        + [("subtrie", ("lit", k), b"", 0) for k in UNIVERSE]
    )

    def gen():
        for length in range(1, n + 1):
            for seq in itertools.product(ops, repeat=length):
                yield list(seq)

    yield (f"all op sequences of length<={n} over the 8-key universe (set/delete/delete_subtrie)", gen())
    yield ("deep comb: 40-byte keys leaving a common spine at 300 different bit positions",
           iter([[("deepcomb", ("lit", b"\x00"), b"", 300)]]))


_LAST = {"key": b"\x12"}


def resolve_arg(spec, model):
    k = _resolve_arg(spec, model)
    _LAST["key"] = k
    return k


def _resolve_arg(spec, model):
    if spec[0] == "last":
        return _LAST["key"]  # the key the previous operation of this case used
    if spec[0] == "lit":
        return spec[1]
    _, i, j, ext = spec
    ks = sorted(model)
    if not ks:
        return bytes([(ext or 0) & 0xFF]) or b"\x00"
    k = ks[i % len(ks)]
    if spec[0] == "sib":
        return _flip(k, [j], b"")
    if spec[0] == "cp":
        k2 = ks[j % len(ks)]
        n = 0
        while n < min(len(k), len(k2)) and k[n] == k2[n]:
            n += 1
        return k[:n] if n else k[:1]
    out = k[: 1 + j % len(k)]
    if ext is not None:
        out = out + bytes([ext])
    return out


def _conflicts(k, model):
    return any(s != k and (s.startswith(k) or k.startswith(s)) for s in model)


def _landing(shape, bits):
    """Where a delete_subtrie prefix ends in the reference shape."""
    while True:
        if shape is None:
            return "absent"
        kind = shape[0]
        if kind == "leaf":
            return "at-leaf" if not bits else "past-leaf"
        if kind == "kv":
            path = shape[2]
            if not bits:
                return "at-kv-start"
            if len(bits) < len(path):
                return "inside-kv-path" if path[: len(bits)] == bits else "diverges-in-kv"
            if bits[: len(path)] != path:
                return "diverges-in-kv"
            bits = bits[len(path):]
            shape = shape[3]
            if not bits:
                return "at-kv-end-" + shape[0]
            continue
        if not bits:
            return "at-branch"
        shape = shape[2] if bits[0] == 0 else shape[3]
        bits = bits[1:]
        if not bits:
            return "below-branch-" + shape[0]


def lookups(model, touched):
    out = set(model)
    for k in list(model) + [touched]:
        for n in range(1, len(k)):
            out.add(k[:n])
        out.add(k + b"\x00")
        out.add(k[:-1] + bytes([k[-1] ^ 1]))
        out.add(k[:-1] + bytes([k[-1] ^ 0x80]))
        out.add(bytes([k[0] ^ 0x80]) + k[1:])
    out.add(touched)
    return sorted(out)


def check_reads(t, model, keys, full):
    for k in keys:
        want = model.get(k)
        got = impl("lookup-never-raises", t.get, k)
        expect_eq("get-matches-model", got, want, f"get({k!r})")
        if full or k in model:
            got = impl("lookup-never-raises", t.exists, k)
            expect_eq("exists-matches-model", got, k in model, f"exists({k!r})")
            got = impl("lookup-never-raises", t.__contains__, k)
            expect_eq("contains-matches-model", got, k in model, f"{k!r} in trie")
            got = impl("lookup-never-raises", t.__getitem__, k)
            expect_eq("getitem-matches-model", got, want, f"trie[{k!r}]")


def _run_deep(case, info):
    """A trie whose longest root-to-leaf path has hundreds of nodes (keys longer than 32 bytes)."""
    import sys

    n = case[0][3]
    spine = int.from_bytes(bytes(range(7, 47)), "big")
    nbits = 40 * 8
    keys = [(spine ^ (1 << (nbits - 1 - i))).to_bytes(40, "big") for i in range(n)]
    db = {}
    t = impl("construct", BinaryTrie, db)
    model = {}
    for i, k in enumerate(keys):
        impl("only-NodeOverrideError", t.set, k, b"value-%d" % i)
        model[k] = b"value-%d" % i
    old = sys.getrecursionlimit()
    sys.setrecursionlimit(max(old, 5000))  # the reference builder recurses once per level
    try:
        ref = RefBin(model)
    finally:
        sys.setrecursionlimit(old)
    expect_eq("root-is-canonical", bytes(t.root_hash), ref.root_hash, f"root of the {n}-key deep comb")
    for k in keys[::7] + keys[-3:]:
        check_reads(t, model, [k, k[:-1] + bytes([k[-1] ^ 1])], True)
    for k in keys[n // 2:]:
        impl("only-NodeOverrideError", t.delete, k)
        del model[k]
    for k in keys[::5]:
        check_reads(t, model, [k], False)
    info.label("deep-comb")
    info.nontrivial = True
    return info


def _has_branch_spine(model):
    """Some stored key K = P + one byte hangs below 8 consecutive branch nodes (a look-up of
    the byte prefix P ends at the top of a spine without any kv node down to a leaf)."""
    bitkeys = ["".join(map(str, bits_of(k))) for k in model]
    for kb in bitkeys:
        if len(kb) < 8:
            continue
        ok = True
        for i in range(len(kb) - 8, len(kb)):
            other = kb[:i] + ("1" if kb[i] == "0" else "0")
            if not any(o.startswith(other) for o in bitkeys):
                ok = False
                break
        if ok:
            return True
    return False


def run_case(case):
    info = Info()
    if case and case[0][0] == "deepcomb":
        return _run_deep(case, info)
    _LAST["key"] = b"\x12"  # no state carried over from another case
    db = HookDB()
    t = impl("construct", BinaryTrie, db)
    model = {}
    # a second trie with its own database, updated from inside a write of the first (an index)
    t_side = impl("construct", BinaryTrie, {})
    side_model = {}
    ledger = {BLANK: {}}
    order = [BLANK]
    refusals = compress = splits = 0
    sparse = bool(case) and case[0][0] == "sparse"
    info.label("sparse-lookups", sparse)
    for no, op in enumerate(case):
        kind, kspec, val, syn = op
        if kind == "sparse":
            continue
        if kind == "reroot":
            old = order[syn % len(order)]
            t.root_hash = old
            model = dict(ledger[old])
            info.label("re-pointed-root")
            check_reads(t, model, lookups(model, b"\x00"), True)
            continue
        k = resolve_arg(kspec, model)
        val = resolve_bin_val(val, db)
        before_root = bytes(t.root_hash)
        before_shape = RefBin(model)
        nb_before = sum(1 for b in before_shape.bodies.values() if b[0] == 1)
        new_model = dict(model)
        may_refuse = must_refuse = False
        if kind == "set":
            if _conflicts(k, model):
                must_refuse = True
            else:
                new_model[k] = val
            fn = (lambda: t.__setitem__(k, val)) if syn else (lambda: t.set(k, val))
        elif kind in ("sete", "del"):
            if k in model:
                del new_model[k]
            else:
                may_refuse = True
            if kind == "sete":
                fn = (lambda: t.__setitem__(k, b"")) if syn else (lambda: t.set(k, b""))
            else:
                fn = (lambda: t.__delitem__(k)) if syn else (lambda: t.delete(k))
        else:
            victims = [s for s in model if s.startswith(k)]
            for s in victims:
                del new_model[s]
            may_refuse = not victims
            fn = lambda: t.delete_subtrie(k)  # noqa: E731
            info.label("subtrie-" + _landing(before_shape.shape, bits_of(k)))
            info.label("subtrie-removes-many", len(victims) >= 2)
        if no % 4 == 1 and not sparse:
            sk = bytes([0x70 + no % 8, no % 251])
            if not _conflicts(sk, side_model):
                def side_write(kind_, key_, sk=sk):
                    t_side.set(sk, b"side")
                    side_model[sk] = b"side"
                db.arm(side_write, no % 2, kinds=("write",))
                info.label("second-trie-updated-inside-a-write")
        r = impl("only-NodeOverrideError", fn, allowed=(NodeOverrideError,))
        db.hook = None
        if isinstance(r, Raised):
            expect("refusal-only-on-prefix-conflict", must_refuse or may_refuse,
                   lambda: f"{kind}({k!r}) was refused with NodeOverrideError on keys {sorted(model)}")
            expect_eq("refused-call-keeps-root", bytes(t.root_hash), before_root, f"root after refused {kind}({k!r})")
            refusals += 1
            info.label("refused-" + kind)
        else:
            expect("prefix-conflict-must-be-refused", not must_refuse,
                   lambda: f"set({k!r}) succeeded although it is a proper prefix/extension of a stored key in {sorted(model)}")
            model = new_model
        ref = RefBin(model)
        expect_eq("root-is-canonical", bytes(t.root_hash), ref.root_hash,
                  f"root after {kind}({k!r}) -> {len(model)} keys")
        nb_after = sum(1 for b in ref.bodies.values() if b[0] == 1)
        if kind in ("sete", "del", "subtrie") and nb_after < nb_before:
            compress += 1
            info.label("delete-compresses-branch")
        if kind == "set" and nb_after > nb_before and nb_before + len(before_shape.bodies) > 0:
            splits += 1
            info.label("set-splits-kv")
        if sparse and no != len(case) - 1:
            # only the key just used, in one spelling (no sweep that would touch other keys)
            check_reads(t, model, [k], False)
        else:
            check_reads(t, model, lookups(model, k), no == len(case) - 1)
        root = bytes(t.root_hash)
        if root in ledger:
            expect_eq("root-determines-contents", ledger[root], model, "two mappings under one root")
        else:
            ledger[root] = dict(model)
            order.append(root)
        # earlier roots remain readable from the same db
        for old in ([] if sparse else {order[0], order[no % len(order)], order[(no * 5 + 1) % len(order)]}):
            # re-open from an equal but distinct bytes object (as after a (de)serialisation)
            ot = impl("construct", BinaryTrie, db, bytes(bytearray(old)))
            check_reads(ot, ledger[old], sorted(ledger[old]) + [k, b"\x00"], False)
    for old in order:
        ot = impl("construct", BinaryTrie, db, bytes(bytearray(old)))
        check_reads(ot, ledger[old], sorted(set(ledger[old]) | set(model) | {b"\x00"}), False)
        if not ledger[old]:
            # an emptied trie is writable again
            impl("set-on-reopened-empty", ot.set, b"\x33", b"x")
            expect_eq("get-matches-model", impl("lookup-never-raises", ot.get, b"\x33"), b"x", "get after set on a re-opened empty trie")
    for sk, sv in side_model.items():
        expect_eq("get-matches-model", impl("lookup-never-raises", t_side.get, sk), sv,
                  f"get({sk!r}) on the second trie that was updated from inside writes of the first")
    expect_eq("root-is-canonical", bytes(t_side.root_hash), RefBin(side_model).root_hash, "root of the second trie")
    if not model:
        expect_eq("empty-is-blank-hash", bytes(t.root_hash), BLANK, "root of the empty trie")
    info.label("branch-only-spine-below-a-prefix", _has_branch_spine(model))
    info.nontrivial = refusals >= 1 and compress >= 1 and splits >= 1
    return info
