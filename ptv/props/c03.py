"""C03 - hexary Merkle proofs are complete and sound."""
import copy

from eth_hash.auto import keccak
from hypothesis import strategies as st

from trie import HexaryTrie
from trie.exceptions import BadTrieProof

from ..hexcommon import (
    histories,
    keyspecs,
    literal_keys,
    literal_values,
    resolve_key,
    simple_ops,
    valspecs,
)
from ..hexrun import apply_simple
from ..ref.mpt import BLANK_ROOT, MISSING, RefTrie, resolve
from ..ref.rlp_hp import hp, hp_decode, rlp_encode
from ..util import HarnessError, Info, cm_enter, cm_exit, expect, expect_eq, impl, nibbles_of

ID = "C03"
ATHERIS = True  # thorough tier: coverage-guided second engine over the same strategy/run_case
LEVEL = "exploration"
BUDGET = {"quick": 10000, "thorough": 300000}
RULE = (
    "case = (history building trie T1 - a plain trie, a pruning trie, or the batch trie inside "
    "an open squash_changes block -, 1-3 further edits giving sibling trie T2, a key "
    "(stored / absent / prefix of / extension of a stored key, index-based), a "
    "corruption script of 0-5 steps over T1.get_proof(key): drop, duplicate, swap, "
    "reverse, alter a node (value / child hash / path nibbles / leaf<->extension flip, "
    "re-encoded so it stays well-formed), splice a T2 proof, append all T2 nodes; and a "
    "claimed root: root(T1), root(T2), hash of first/altered node, random, blank). "
    "Oracles: (1) every proof element is a node on the key's path of the reference MPT; "
    "(2) get_from_proof(root, key, get_proof(key)) == model value; (3) for the corrupted "
    "list the result must equal an independent resolver over exactly those nodes - same "
    "value, or BadTrieProof exactly when the resolver cannot follow a hash; (4) ALL "
    "single-node withholdings of hashed path nodes are enumerated and must raise "
    "BadTrieProof. Non-trivial = proof length >= 2 and (absent key ending at a branch / "
    "inside an extension / below an embedded node, or a non-empty script whose result "
    "still resolves to a value). Distinct = canonical JSON."
    ' Added after the seeded rounds: T1 may be a pruning trie or the batch trie inside an open squash_changes block; the caller scribbles on the returned proof and a second honest proof must still verify; the same trie object is re-pointed at root(T2); proofs are also handed over as generators whose producer runs another verification in between; fixed deep-chain cases (keys up to ~245 bytes).'
)
LEVEL_TEXT = (
    "Exploration by differential property testing: honest proofs are checked against "
    "the reference trie's path nodes and the dict model; forged proofs (grammar of "
    "corruptions over real proof nodes of two overlapping tries) are checked against an "
    "independent proof resolver, so the oracle is exact for whatever list is generated; "
    "withholding of each hashed path node is enumerated per case."
)
LEVEL_NOTE = "Sound relative to keccak collision resistance and to the corruption grammar (forged nodes stay well-formed as the statement requires). Trusted: reference resolver (KAT: two mainnet proofs)."
TECHNIQUE = "differential property testing: get_from_proof vs independent resolver on generated proof corruptions; per-case enumeration of withholdings"


def strategy(tier):
    alter = st.tuples(st.just("alter"), st.integers(0, 20),
                      st.sampled_from(["value", "child", "path", "flip", "bvalue"]),
                      st.integers(0, 255), literal_values(tier))
    step = st.one_of(
        st.tuples(st.just("drop"), st.integers(0, 20)),
        st.tuples(st.just("dup"), st.integers(0, 20), st.integers(0, 20)),
        st.tuples(st.just("swap"), st.integers(0, 20), st.integers(0, 20)),
        st.tuples(st.just("rev")),
        alter, alter, alter,
        st.tuples(st.just("splice"), st.integers(0, 20)),
        st.tuples(st.just("appendall")),
    )
    n_items = 10 if tier == "quick" else 30
    sets = st.lists(
        st.tuples(st.just("set"), st.tuples(st.just("lit"), literal_keys(tier)), valspecs(tier),
                  st.just(0)),
        min_size=1, max_size=n_items,
    )
    return st.fixed_dictionaries(
        {
            "t1": st.builds(lambda a, b: a + b, sets,
                            histories(tier, max_ops=5, batches=False)),
            "t2": st.lists(simple_ops(tier), min_size=1, max_size=3),
            "key": keyspecs(tier, near_weight=9),
            "key2": keyspecs(tier, near_weight=9),
            "script": st.lists(step, max_size=5),
            "root": st.tuples(st.sampled_from([0, 0, 0, 1, 1, 2, 3, 3, 4, 5]),
                              st.binary(min_size=32, max_size=32)),
            "mode": st.sampled_from([0, 0, 0, 1, 1, 2]),
        }
    )


def exhaustive(tier):
    yield ("deep chain of nested prefix keys (200 levels, or as deep as set() can build if that is less): proofs for stored, prefix and absent keys",
           iter([{"deep": 0}, {"deep": 1}]))


def _run_deep(case, info):
    from ..deepchain import build_chain

    t, model, keys = build_chain(fan=bool(case["deep"]))
    ref = RefTrie(model)
    expect_eq("root-precondition", bytes(t.root_hash), ref.root_hash, "deep chain root")
    probes = keys[::11] + keys[-3:] + [k + b"\x01" for k in keys[::29]] + [k[:-1] + bytes([k[-1] ^ 2]) for k in keys[::31]]
    for k in probes:
        proof = impl("get_proof-never-raises", t.get_proof, k)
        encs = {n.enc for n in ref.path_nodes(nibbles_of(k))}
        for node in proof:
            expect("proof-only-path-nodes", rlp_encode(node) in encs, lambda: f"deep proof of {len(k)}-byte key has a foreign node")
        got = impl("proof-complete", HexaryTrie.get_from_proof, t.root_hash, k, proof)
        expect_eq("proof-complete", got, model.get(k, b""), f"get_from_proof for a {len(k)}-byte key of the deep chain")
    info.count("deep_chain_levels", len(keys))
    info.label("deep-chain")
    info.nontrivial = len(keys) >= 100
    return info


def _hash(node):
    return keccak(rlp_encode(node))


def _alter(node, how, arg, val):
    """Return a well-formed altered copy of a node, or None when not applicable."""
    node = copy.deepcopy(node)
    if len(node) == 2:
        path, term = hp_decode(node[0])
        if how == "value" and term:
            node[1] = val
            return node
        if how == "child" and not term and isinstance(node[1], bytes):
            node[1] = keccak(val + bytes([arg]))
            return node
        if how == "path":
            new = list(path)
            if new and arg % 3 == 0:
                new[arg % len(new)] = (new[arg % len(new)] + 1 + arg // 16) % 16
            elif arg % 3 == 1:
                new.append(arg % 16)
            else:
                new = new[:-1]
            if not term and not new:
                return None
            node[0] = hp(new, term)
            return node
        if how == "flip":
            if term and not (isinstance(node[1], bytes) and len(node[1]) == 32):
                return None
            if term and not path:
                return None
            node[0] = hp(path, not term)
            return node
        return None
    if len(node) == 17:
        if how in ("value", "bvalue"):
            node[16] = val if arg % 4 else b""
            return node
        if how == "child":
            idx = arg % 16
            node[idx] = b"" if arg >= 240 else keccak(val + bytes([arg]))
            return node
    return None


def run_case(case):
    info = Info()
    if "deep" in case:
        return _run_deep(case, info)
    # ---- build T1 and T2 ---------------------------------------------------------
    db1 = {}
    mode = case.get("mode", 0)  # 0: plain trie, 1: pruning trie, 2: proofs taken inside a batch
    t1 = impl("construct", HexaryTrie, db1, prune=(mode == 1))
    m1 = {}
    info.label(["plain-trie", "pruning-trie", "proof-inside-batch"][mode])
    cm = None
    if mode == 2:
        ops = case["t1"]
        for op in ops[: len(ops) // 2]:
            apply_simple(t1, m1, op)
        outer = t1
        cm = impl("squash_changes", outer.squash_changes)
        t1 = cm_enter("squash_changes", cm)
        for op in ops[len(ops) // 2:]:
            apply_simple(t1, m1, op)
    else:
        for op in case["t1"]:
            apply_simple(t1, m1, op)
    db2 = dict(db1)
    if mode == 2:
        # readable view of the batch: the underlying db overlaid with the buffered writes
        # (ScratchDB.copy() alone drops keys whose buffered action is a delete although
        # they still read through)
        db2.update(impl("scratch-copy", t1.db.copy))
    t2 = impl("construct", HexaryTrie, db2, t1.root_hash)
    m2 = dict(m1)
    for op in case["t2"]:
        apply_simple(t2, m2, op)
    ref1, ref2 = RefTrie(m1), RefTrie(m2)
    expect_eq("root-precondition", bytes(t1.root_hash), ref1.root_hash, "T1 root (precondition)")
    key = resolve_key(case["key"], sorted(m1))
    key2 = resolve_key(case["key2"], sorted(m2))
    kn = nibbles_of(key)

    # ---- (1) only path nodes, (2) completeness -------------------------------------
    proof = impl("get_proof-never-raises", t1.get_proof, key)
    expect("get_proof-returns-sequence", isinstance(proof, (tuple, list)), "get_proof must return a sequence")
    proof = list(proof)
    path_encs = {n.enc for n in ref1.path_nodes(kn)}
    for i, node in enumerate(proof):
        expect("proof-only-path-nodes", rlp_encode(node) in path_encs,
               lambda: f"proof[{i}] = {node!r} is not a node on the path of key {key!r}")
    got = impl("proof-complete", HexaryTrie.get_from_proof, t1.root_hash, key, proof)
    expect_eq("proof-complete", got, m1.get(key, b""), f"get_from_proof of the honest proof for {key!r}")
    # the honest proof must also verify against the independent resolver
    r = resolve(ref1.root_hash, kn, proof)
    expect("proof-complete-independent", r is not MISSING and r == m1.get(key, b""),
           lambda: f"the independent verifier cannot establish {key!r} from get_proof: {r!r}")

    # classification of the key
    loc = ref1.locate(kn)
    if key in m1:
        info.label("key-stored")
    else:
        info.label("key-absent")
        if loc[0] == "partial":
            info.label("ends-in-extension" if loc[1].kind == "ext" else "ends-in-leaf")
        elif loc[0] == "node":
            info.label("ends-at-" + loc[1].kind)
        else:
            last = ref1.path_nodes(kn)
            info.label("diverges-after-" + (last[-1].kind if last else "empty-trie"))
    pn = ref1.path_nodes(kn)
    embedded_on_path = any((not n.hashed) and n is not ref1.root for n in pn)
    info.label("embedded-on-path", embedded_on_path)
    interesting_absent = key not in m1 and (
        (loc[0] == "partial" and loc[1].kind == "ext")
        or (loc[0] == "node" and loc[1].kind in ("branch", "ext"))
        or embedded_on_path
    )

    # ---- (4) every single withholding of a hashed path node ----------------------
    for prefix, h in ref1.hashed_on_path(kn):
        withheld = [n for n in proof if _hash(n) != h]
        got = impl("withheld-node-rejected", HexaryTrie.get_from_proof, t1.root_hash, key,
                   withheld, allowed=(BadTrieProof,))
        expect("withheld-node-rejected", not isinstance(got, bytes),
               lambda: f"proof for {key!r} without the hashed node at {prefix} was accepted, returned {got!r}")
        info.count("withholdings")

    # ---- (3) corruption script, differential against the resolver -----------------
    nodes = [copy.deepcopy(n) for n in proof]
    altered_hash = None
    applied = 0
    for stp in case["script"]:
        kind = stp[0]
        if kind == "drop" and nodes:
            del nodes[stp[1] % len(nodes)]
            applied += 1
        elif kind == "dup" and nodes:
            nodes.insert(stp[2] % (len(nodes) + 1), copy.deepcopy(nodes[stp[1] % len(nodes)]))
            applied += 1
        elif kind == "swap" and len(nodes) >= 2:
            i, j = stp[1] % len(nodes), stp[2] % len(nodes)
            nodes[i], nodes[j] = nodes[j], nodes[i]
            applied += 1
        elif kind == "rev" and len(nodes) >= 2:
            nodes.reverse()
            applied += 1
        elif kind == "alter" and nodes:
            i = stp[1] % len(nodes)
            new = _alter(nodes[i], stp[2], stp[3], stp[4])
            if new is not None:
                nodes[i] = new
                altered_hash = _hash(new)
                applied += 1
                info.label("altered-" + stp[2])
        elif kind == "splice":
            other = impl("get_proof-never-raises", t2.get_proof, key2)
            pos = stp[1] % (len(nodes) + 1)
            nodes[pos:pos] = [copy.deepcopy(n) for n in other]
            applied += 1
            info.label("spliced")
        elif kind == "appendall":
            nodes.extend(copy.deepcopy(n.raw) for n in ref2.preorder())
            applied += 1
            info.label("appended-all-T2")
    sel, rnd = case["root"]
    if sel == 0:
        root, rname = ref1.root_hash, "root(T1)"
    elif sel == 1:
        root, rname = ref2.root_hash, "root(T2)"
    elif sel == 2 and nodes:
        root, rname = _hash(nodes[0]), "hash(first node)"
    elif sel == 3 and altered_hash is not None:
        root, rname = altered_hash, "hash(altered node)"
    elif sel == 5:
        root, rname = BLANK_ROOT, "blank root"
    else:
        root, rname = rnd, "random root"
    info.label("root:" + rname)

    want = resolve(root, kn, nodes)
    got = impl("forged-proof", HexaryTrie.get_from_proof, root, key, nodes, allowed=(BadTrieProof,))
    if want is MISSING:
        info.label("forged-rejected")
        expect("missing-node-raises-BadTrieProof", not isinstance(got, bytes),
               lambda: f"{rname}: a hash pointer on the path of {key!r} cannot be followed in the "
                       f"offered nodes, but get_from_proof returned {got!r}")
    else:
        info.label("forged-accepted")
        expect("never-returns-different-value", isinstance(got, bytes) and got == want,
               lambda: f"{rname}: offered nodes establish {want!r} for {key!r}, get_from_proof gave {got!r}")
        if root == ref1.root_hash and want != m1.get(key, b""):
            raise HarnessError("resolver disagrees with model under the true root (collision or oracle bug)")
        if root == ref2.root_hash and want != m2.get(key, b""):
            raise HarnessError("resolver disagrees with model 2 under the true root")
    # ---- (4b) two verifications overlapping in time: the proof is a generator whose producer
    # verifies another proof (of key2 in T2) while the first one is being consumed
    other_proof = impl("get_proof-never-raises", t2.get_proof, key2)
    inner = []

    def lazy_proof():
        for i, node in enumerate(copy.deepcopy(proof)):
            if i == len(proof) // 2:
                inner.append(HexaryTrie.get_from_proof(ref2.root_hash, key2, copy.deepcopy(other_proof)))
            yield node

    got = impl("proof-complete", HexaryTrie.get_from_proof, t1.root_hash, key, lazy_proof(), allowed=())
    expect_eq("proof-complete", got, m1.get(key, b""), f"get_from_proof of a lazily produced proof for {key!r} "
              "(another verification ran in between)")
    if inner:
        expect_eq("proof-complete", inner[0], m2.get(key2, b""), f"the verification of {key2!r} that ran in between")
    # and a proof with the last node withheld must not profit from the other verification
    if len(proof) >= 2 and _hash(proof[-1]) in {h for _, h in ref1.hashed_on_path(kn)}:
        def lazy_short():
            for i, node in enumerate(copy.deepcopy(proof[:-1])):
                if i == 0:
                    HexaryTrie.get_from_proof(t1.root_hash, key, copy.deepcopy(proof))
                yield node
        got = impl("withheld-node-rejected", HexaryTrie.get_from_proof, t1.root_hash, key, lazy_short(), allowed=(BadTrieProof,))
        expect("withheld-node-rejected", not isinstance(got, bytes),
               lambda: f"an incomplete lazily produced proof for {key!r} was accepted after a full one was verified in between")

    # ---- (5) the caller scribbles on the returned proof; later proofs must be unaffected ----
    for node in proof:
        if isinstance(node, list) and node:
            node[-1] = b"scribbled-by-the-caller"
            node[0] = b"\x20"
    again = impl("get_proof-never-raises", t1.get_proof, key)
    got = impl("proof-complete", HexaryTrie.get_from_proof, t1.root_hash, key, again)
    expect_eq("proof-complete", got, m1.get(key, b""), f"get_from_proof of a second honest proof for {key!r} "
              "(after the caller modified the first returned proof in place)")
    # ---- (6) the same trie object pointed at another root --------------------------------
    if mode == 0:
        db1.update(db2)
        t1.root_hash = ref2.root_hash
        for kk in (key, key2):
            pr = impl("get_proof-never-raises", t1.get_proof, kk)
            encs = {n.enc for n in ref2.path_nodes(nibbles_of(kk))}
            for node in pr:
                expect("proof-only-path-nodes", rlp_encode(node) in encs,
                       lambda: f"after re-pointing the trie at root(T2), get_proof({kk!r}) returned a node that is not on the key's path")
            got = impl("proof-complete", HexaryTrie.get_from_proof, t1.root_hash, kk, pr)
            expect_eq("proof-complete", got, m2.get(kk, b""), f"get_from_proof after re-pointing the trie object at root(T2), key {kk!r}")
        info.label("re-pointed-root")
    if cm is not None:
        cm_exit("squash_changes-exit", cm)
    info.label("script-applied", applied > 0)
    info.nontrivial = len(proof) >= 2 and (
        interesting_absent or (applied > 0 and want is not MISSING)
    )
    return info
