"""C11 - HexaryTrieFog is an immutable, order-independent record of unexplored prefixes."""
from hypothesis import strategies as st

from trie.exceptions import FullDirectionalVisibility, PerfectVisibility
from trie.fog import HexaryTrieFog

from ..util import Info, Raised, expect, expect_eq, impl

ID = "C11"
ATHERIS = True  # thorough tier: coverage-guided second engine over the same strategy/run_case
LEVEL = "exploration"
BUDGET = {"quick": 24000, "thorough": 2000000}
RULE = (
    "case = sequence of calls on a fresh fog: explore(p, segs) with p = i-th unexplored "
    "prefix or an arbitrary (possibly unknown) prefix and segs shaped as leaf [], "
    "extension (1-4 nibbles), branch (subset of 16 singletons), mixed lengths, "
    "deliberately duplicated / nested; mark_all_complete(subset, possibly with unknown or "
    "repeated members); queries with arbitrary nibble keys and keys derived from members "
    "(member itself, extended, truncated, +-1 on the last nibble). Oracle: Python set "
    "with the replacement rule. After each call: returned fog == model, receiver "
    "unchanged (prefix set and serialize() bytes), antichain invariant, is_complete == "
    "(model empty), deserialize(serialize(f)) == f; invalid calls raise and change "
    "nothing; a second independent exploration applied in both orders gives equal fogs; "
    "nearest_unknown/nearest_right answers vs containing member / sorted-list "
    "neighbours, PerfectVisibility iff empty, FullDirectionalVisibility iff nothing "
    "contains the key and nothing lies to the right. Non-trivial = >=3 accepted "
    "explorations incl. a mixed-length one, >=1 rejected call and >=1 query without a "
    "containing member. Distinct = canonical JSON."
    ' Added after the seeded rounds: continuations passed as list / tuple / one-shot iterator; segments whose hex-prefix bytes contain repr-special characters; a short segment plus a 6-13 nibble segment that starts with it; histories may continue from the deserialised fog; nearest_unknown() default argument; FullDirectionalVisibility and PerfectVisibility must not be subclasses of one another.'
)
LEVEL_TEXT = (
    "Exploration by stateful model-based property testing (call sequences as one "
    "shrinkable value) against a set model and sorted-list neighbour oracle; every call "
    "also checks receiver immutability, serialisation round trip and commutation of an "
    "independent exploration."
)
LEVEL_NOTE = "The tie-break of nearest_unknown between two adjacent prefixes is not part of the claim (either neighbour is accepted). The unexplored set is read from the object for comparison; all other observations are public API."
TECHNIQUE = "stateful model-based property testing: fog call sequences vs set model and sorted-neighbour oracle; metamorphic commutation check"

nib = st.integers(0, 15)


# nibble sequences whose hex-prefix encoding contains characters that are special in a
# Python bytes repr (", " / quotes / backslash / newline / NUL): they stress serialize()
HOSTILE = [[2, 12, 2, 0], [7, 2, 12, 2, 0], [2, 7], [5, 12], [2, 2], [0, 10], [2, 12], [2, 0],
           [5, 12, 6, 14], [0, 0], [2, 7, 2, 12, 2, 0, 2, 7]]
PREFIX_FREE = [[0], [1, 0], [1, 1], [2, 3, 4], [5], [1, 2, 0], [15, 15], [15, 0, 1], [7]]


def _segs():
    leaf = st.just([])
    ext = st.lists(nib, min_size=1, max_size=4).map(lambda s: [s])
    branch = st.lists(nib, min_size=1, max_size=16, unique=True).map(lambda l: [[x] for x in sorted(l)])
    mixed_valid = st.lists(st.sampled_from(PREFIX_FREE), min_size=2, max_size=5, unique_by=tuple)
    mixed_any = st.lists(st.lists(nib, max_size=3), max_size=5)
    hostile = st.lists(st.sampled_from(HOSTILE), min_size=1, max_size=3, unique_by=tuple)
    # a short segment and a long one (8..13 nibbles) that starts with it, plus bystanders
    nested_long = st.builds(
        lambda a, ext, others, flip: ([a, a + ext] if flip else [a + ext, a]) + others,
        st.lists(nib, min_size=1, max_size=4), st.lists(nib, min_size=5, max_size=9),
        st.lists(st.lists(nib, min_size=1, max_size=10), max_size=2), st.booleans())
    return st.one_of(leaf, ext, ext, branch, branch, branch, branch, mixed_valid, mixed_valid, mixed_any, hostile,
                     nested_long)


def strategy(tier):
    sel = st.one_of(
        st.tuples(st.just("idx"), st.integers(0, 40)),
        st.tuples(st.just("idx"), st.integers(0, 40)),
        st.tuples(st.just("idx"), st.integers(0, 40)),
        st.tuples(st.just("lit"), st.lists(nib, max_size=4)),
    )
    query = st.one_of(
        st.tuples(st.just("lit"), st.lists(nib, max_size=6)),
        st.tuples(st.just("mem"), st.integers(0, 40),
                  st.sampled_from(["same", "ext", "trunc", "inc", "dec"]), nib),
    )
    call = st.one_of(
        st.tuples(st.just("explore"), sel, _segs(), st.integers(0, 40), _segs()),
        st.tuples(st.just("explore"), sel, _segs(), st.integers(0, 40), _segs()),
        st.tuples(st.just("explore"), sel, _segs(), st.integers(0, 40), _segs()),
        st.tuples(st.just("mark"), st.lists(sel, max_size=4)),
        st.tuples(st.just("query"), query),
        st.tuples(st.just("query"), query),
    )
    restore = st.tuples(st.just("restore"))
    return st.lists(st.one_of([call] * 7 + [restore]), min_size=1, max_size=14 if tier == "quick" else 40)


def _prefixes(fog):
    """The set of unexplored prefixes: read from the state the property is anchored in, or -
    if a fog does not have that attribute (another internal representation) - enumerated
    through the public nearest_right() alone, left to right."""
    try:
        raw = fog._unexplored_prefixes
    except AttributeError:
        return _prefixes_by_queries(fog)
    return {tuple(int(x) for x in p) for p in raw}


def _prefixes_by_queries(fog):
    out, key = set(), ()
    for _ in range(100000):
        try:
            p = tuple(int(x) for x in fog.nearest_right(key))
        except (PerfectVisibility, FullDirectionalVisibility):
            return out
        if p in out:
            return out  # nothing new to the right
        out.add(p)
        nxt = list(p)
        while nxt and nxt[-1] == 15:
            nxt.pop()
        if not nxt:
            return out  # p covers everything up to the right edge
        nxt[-1] += 1
        key = tuple(nxt)
    return out


def _resolve_sel(sel, members):
    if sel[0] == "lit":
        return tuple(sel[1])
    if not members:
        return (sel[1] % 16,)
    return members[sel[1] % len(members)]


def _valid_segs(segs):
    segs = [tuple(s) for s in segs]
    if len(set(segs)) != len(segs):
        return False
    for a in segs:
        for b in segs:
            if a != b and b[: len(a)] == a:
                return False
    return True


def _check_fog(fog, model, what):
    expect("returns-a-fog", isinstance(fog, HexaryTrieFog), lambda: f"got {fog!r} instead of a HexaryTrieFog {what}")
    got = _prefixes(fog)
    expect_eq("fog-equals-replacement-model", got, set(model), f"unexplored prefixes {what}")
    ms = sorted(model)
    for a in ms:
        for b in ms:
            expect("antichain", a == b or b[: len(a)] != a, f"{a} is a prefix of {b} {what}")
    expect_eq("is_complete-iff-empty", impl("is_complete", lambda: fog.is_complete), not model,
              f"is_complete {what}")
    ser = impl("serialize", fog.serialize)
    back = impl("deserialize", HexaryTrieFog.deserialize, ser)
    expect("serialize-roundtrip", impl("eq", lambda: back == fog) is True and _prefixes(back) == got,
           f"deserialize(serialize(fog)) differs {what}")
    return ser


def _queries(fog, model, q, info):
    ms = sorted(model)
    containing = [m for m in ms if q[: len(m)] == m]
    pred = [m for m in ms if m < q]
    succ = [m for m in ms if m > q]
    r = impl("nearest_unknown", fog.nearest_unknown, q, allowed=(PerfectVisibility,))
    if not ms:
        expect("PerfectVisibility-iff-empty", isinstance(r, Raised), lambda: f"nearest_unknown({q}) on a complete fog returned {r!r}")
    else:
        expect("PerfectVisibility-iff-empty", not isinstance(r, Raised), f"nearest_unknown({q}) raised on a non-empty fog")
        expect("nearest-is-member", isinstance(r, tuple), lambda: f"nearest_unknown({q}) returned {r!r}")
        got = tuple(int(x) for x in r)
        expect("nearest-is-member", got in model, f"nearest_unknown({q}) = {got} is not unexplored")
        if containing:
            expect_eq("nearest-prefers-containing", got, containing[0], f"nearest_unknown({q})")
        else:
            adj = set()
            if pred:
                adj.add(pred[-1])
            if succ:
                adj.add(succ[0])
            expect("nearest-is-adjacent", got in adj, f"nearest_unknown({q}) = {got}, adjacent are {sorted(adj)}")
            info.label("query-without-containing-member")
    r = impl("nearest_right", fog.nearest_right, q, allowed=(PerfectVisibility, FullDirectionalVisibility))
    if not ms:
        expect("PerfectVisibility-iff-empty", isinstance(r, Raised) and isinstance(r.exc, PerfectVisibility),
               lambda: f"nearest_right({q}) on a complete fog gave {r!r}")
        # ... and must not be mistaken for "nothing to the right" by `except FullDirectionalVisibility`
        expect("FullDirectionalVisibility-iff-nothing-right", not isinstance(r.exc, FullDirectionalVisibility),
               f"nearest_right({q}) on a complete fog raised {type(r.exc).__name__}, which is a FullDirectionalVisibility")
    elif containing:
        expect("nearest_right-prefers-containing", isinstance(r, tuple)
               and tuple(int(x) for x in r) == containing[0], lambda: f"nearest_right({q}) gave {r!r}, expected {containing[0]}")
    elif succ:
        expect("nearest_right-is-successor", isinstance(r, tuple)
               and tuple(int(x) for x in r) == succ[0], lambda: f"nearest_right({q}) gave {r!r}, expected {succ[0]}")
    else:
        expect("FullDirectionalVisibility-iff-nothing-right", isinstance(r, Raised)
               and isinstance(r.exc, FullDirectionalVisibility),
               lambda: f"nearest_right({q}) gave {r!r} although nothing lies to the right")
        # ... and it must not be mistaken for "nothing is unexplored" by `except PerfectVisibility`
        expect("PerfectVisibility-iff-empty", not isinstance(r.exc, PerfectVisibility),
               f"nearest_right({q}) raised {type(r.exc).__name__}, which is a PerfectVisibility, on a non-empty fog")
        info.label("full-directional-visibility")


def run_case(case):
    info = Info()
    fog = impl("construct", HexaryTrieFog)
    model = {()}
    _check_fog(fog, model, "initially")
    accepted = rejected = 0
    mixed = False
    for call in case:
        kind = call[0]
        members = sorted(model)
        before = _check_fog(fog, model, "before the call")
        if kind == "restore":
            # go on with a fog restored from its serialisation (a checkpointed walk)
            fog = impl("deserialize", HexaryTrieFog.deserialize, before)
            info.label("continued-from-deserialised-fog")
            _check_fog(fog, model, "after restoring from the serialisation")
            continue
        if kind == "explore":
            p = _resolve_sel(call[1], members)
            segs = [tuple(s) for s in call[2]]
            ok = p in model and _valid_segs(segs)
            # the continuations may be handed over as a list, a tuple or a one-shot iterator
            shape = (call[3] + len(segs)) % 3
            arg = segs if shape == 0 else tuple(segs) if shape == 1 else iter(list(segs))
            info.label("segments-as-iterator", shape == 2)
            r = impl("explore", fog.explore, p, arg, allowed=(Exception,))
            if ok:
                expect("valid-explore-accepted", not isinstance(r, Raised), lambda: f"explore({p}, {segs}) was refused: {r!r}")
                new_model = (model - {p}) | {p + s for s in segs}
                _check_fog(r, new_model, f"after explore({p}, {segs})")
                # independent exploration commutes
                others = [m for m in members if m != p]
                if others:
                    p2 = others[call[3] % len(others)]
                    segs2 = [tuple(s) for s in call[4]]
                    if _valid_segs(segs2):
                        a = impl("explore", r.explore, p2, segs2)
                        b = impl("explore", impl("explore", fog.explore, p2, segs2).explore, p, segs)
                        expect("independent-explorations-commute", impl("eq", lambda: a == b) is True
                               and _prefixes(a) == _prefixes(b),
                               f"explore({p}) then ({p2}) differs from the reverse order")
                        info.label("commutation-checked")
                accepted += 1
                if len({len(s) for s in segs}) > 1:
                    mixed = True
                    info.label("mixed-length")
                info.label("explore-" + ("leaf" if not segs else "ext" if len(segs) == 1 else "multi"))
            else:
                expect("invalid-explore-rejected", isinstance(r, Raised),
                       lambda: f"explore({p}, {segs}) on {members} should be rejected, returned {r!r}")
                rejected += 1
                info.label("rejected-unknown-prefix" if p not in model else "rejected-dup-or-nested")
                new_model = model
                r = fog
            # receiver never modified
            expect_eq("receiver-unchanged", _prefixes(fog), set(model), "receiver after explore")
            expect_eq("receiver-unchanged", impl("serialize", fog.serialize), before, "receiver serialisation after explore")
            fog, model = r, new_model
        elif kind == "mark":
            ps = [_resolve_sel(s, members) for s in call[1]]
            tmp = set(model)
            ok = True
            for p in ps:
                if p in tmp:
                    tmp.discard(p)
                else:
                    ok = False
                    break
            r = impl("mark_all_complete", fog.mark_all_complete, ps if len(ps) % 2 else iter(list(ps)),
                     allowed=(Exception,))
            if ok:
                expect("valid-mark-accepted", not isinstance(r, Raised), lambda: f"mark_all_complete({ps}) was refused: {r!r}")
                _check_fog(r, tmp, f"after mark_all_complete({ps})")
                # equivalent to exploring each with no sub-segments
                alt = fog
                for p in ps:
                    alt = impl("explore", alt.explore, p, ())
                expect("mark-equals-explore-empty", impl("eq", lambda: alt == r) is True, "mark_all_complete vs explore(p, ())")
                new_fog, new_model = r, tmp
                info.label("mark-accepted")
            else:
                expect("invalid-mark-rejected", isinstance(r, Raised),
                       lambda: f"mark_all_complete({ps}) on {members} should be rejected, returned {r!r}")
                rejected += 1
                new_fog, new_model = fog, model
                info.label("mark-rejected")
            expect_eq("receiver-unchanged", _prefixes(fog), set(model), "receiver after mark_all_complete")
            expect_eq("receiver-unchanged", impl("serialize", fog.serialize), before, "receiver serialisation after mark")
            fog, model = new_fog, new_model
        else:
            qs = call[1]
            if qs[0] == "lit":
                q = tuple(qs[1])
            else:
                if members:
                    m = members[qs[1] % len(members)]
                else:
                    m = ()
                how, x = qs[2], qs[3]
                if how == "same":
                    q = m
                elif how == "ext":
                    q = m + (x,)
                elif how == "trunc":
                    q = m[:-1]
                elif how == "inc":
                    q = m[:-1] + (min(m[-1] + 1, 15),) if m else (x,)
                else:
                    q = m[:-1] + (max(m[-1] - 1, 0),) if m else (x,)
            _queries(fog, model, q, info)
            info.count("queries")
    _check_fog(fog, model, "at the end")
    # default argument: nearest_unknown() == nearest_unknown(())
    a = impl("nearest_unknown", fog.nearest_unknown, allowed=(PerfectVisibility,))
    b = impl("nearest_unknown", fog.nearest_unknown, (), allowed=(PerfectVisibility,))
    expect("nearest_unknown-default-argument", (isinstance(a, Raised) and isinstance(b, Raised))
           or (not isinstance(a, Raised) and not isinstance(b, Raised) and tuple(a) == tuple(b)),
           lambda: f"nearest_unknown() gave {a!r}, nearest_unknown(()) gave {b!r}")
    for q in [(), (0,), (15, 15, 15, 15, 15, 15, 15)]:
        _queries(fog, model, q, info)
    info.label("completed", not model)
    info.nontrivial = accepted >= 3 and mixed and rejected >= 1 and "query-without-containing-member" in info.labels
    return info
