"""C02 - HexaryTrie root hash is the canonical Ethereum MPT root of its contents."""
import itertools

from hypothesis import strategies as st

from trie import HexaryTrie

from ..hexcommon import histories, literal_keys, literal_values
from ..hexrun import run_history
from ..ref.mpt import RefTrie
from ..util import Abort, Info, cm_enter, cm_exit, expect_eq, impl
from .c01 import UNIVERSE

ID = "C02"
ATHERIS = True  # thorough tier: coverage-guided second engine over the same strategy/run_case
LEVEL = "exploration"
BUDGET = {"quick": 14000, "thorough": 300000}
RULE = (
    "case = hexary history (as C01, prune on/off, committed batches) plus a metamorphic "
    "part: one final mapping reached by a second, permuted history with extra keys "
    "inserted and deleted again and (optionally) one big batch. Oracle: an independent "
    "reference MPT built from the key/value SET (own RLP, own hex-prefix, KAT-anchored to "
    "six ethereum/tests roots and two mainnet proofs); after EVERY op root_hash == "
    "reference root and db[root_hash] == rlp(root node); empty mapping == blank root. "
    "Non-trivial = the reference trie had a node whose RLP is 31..33 bytes or an "
    "embedded node, AND some delete reduced the number of branch nodes (structural "
    "merge). Distinct = canonical JSON of the case."
    ' Added after the seeded rounds: sparse-lookup mode, probe fragments, re-pointing the same object at an earlier root, twin fragments (identical sibling leaves), edge-leaf fragments (31-33 byte leaves made by long keys and 1-3 byte values >= 0x80), 16-way fans, HexBytes arguments, hash-like values.'
)
LEVEL_TEXT = (
    "Exploration by differential property testing against a from-scratch reference "
    "Merkle-Patricia trie (never compared with py-trie itself), root and stored root "
    "body compared after every operation, values concentrated on the 32-byte embedding "
    "threshold and RLP length boundaries; bounded-exhaustive enumeration of all "
    "histories of length <=3/<=4 over a 6-key prefix-closed universe."
)
LEVEL_NOTE = "Trusted: keccak-256 from eth_hash (KAT-checked), the reference MPT (anchored by known-answer roots from ethereum/tests and recorded mainnet proofs)."
TECHNIQUE = "differential property testing vs independent reference MPT (KAT-anchored) + metamorphic permutations + bounded-exhaustive enumeration"


def strategy(tier):
    meta = st.fixed_dictionaries(
        {
            "items": st.lists(st.tuples(literal_keys(tier), literal_values(tier)), max_size=10),
            "extra": st.lists(st.tuples(literal_keys(tier), literal_values(tier)), max_size=4),
            "perm": st.lists(st.integers(0, 1000), min_size=14, max_size=14),
            "batch": st.booleans(),
        }
    )
    return st.fixed_dictionaries(
        {
            "prune": st.booleans(),
            "sparse": st.booleans(),
            "ops": histories(tier, batches=True, aborts=True, looks=1, reroot=True),
            "meta": st.one_of(st.none(), meta),
        }
    )


def exhaustive(tier):
    n = 3 if tier == "quick" else 4
    acts = []
    for k in UNIVERSE:
        acts.append(("set", ("lit", k), ("lit", b"s"), 0))
        acts.append(("set", ("lit", k), ("lit", b"L" * 33), 1))
        acts.append(("del", ("lit", k), 0))

    def gen():
        for length in range(1, n + 1):
            for seq in itertools.product(acts, repeat=length):
                yield {"prune": length % 2 == 0, "ops": list(seq), "meta": None}

    yield (f"all histories of length<={n} over the 6-key universe x (short,long,delete)", gen())


def _metamorphic(case, info):
    meta = case["meta"]
    final = {}
    for k, v in meta["items"]:
        final[k] = v
    extra = [(k, v) for k, v in meta["extra"] if k not in final]
    ref = RefTrie(final)
    # history A: insertion order as given, extras inserted first and deleted last
    ta = impl("construct", HexaryTrie, {}, prune=bool(case["prune"]))
    for k, v in extra:
        impl("set-never-raises", ta.set, k, v)
    for k, v in meta["items"]:
        impl("set-never-raises", ta.set, k, v)
    for k, _ in extra:
        impl("delete-never-raises", ta.delete, k)
    # history B: permuted order, overwrite chains, optionally one batch
    order = sorted(range(len(meta["items"])), key=lambda i: (meta["perm"][i % 14], i))
    seq = []
    for i in order:
        k, v = meta["items"][i]
        seq.append((k, v + b"!"))  # will be overwritten unless a later dup wins
    last = {}
    for idx, (k, v) in enumerate(meta["items"]):
        last[k] = v
    tb = impl("construct", HexaryTrie, {}, prune=not case["prune"])

    def apply_b(t):
        for k, v in seq:
            impl("set-never-raises", t.set, k, v)
        for k, v in extra:
            impl("set-never-raises", t.__setitem__, k, v)
        for k in reversed(sorted(last)):
            impl("set-never-raises", t.__setitem__, k, last[k])
        for k, _ in reversed(extra):
            impl("delete-never-raises", t.__delitem__, k)

    if meta["batch"]:
        cm = impl("squash_changes", tb.squash_changes)
        b = cm_enter("squash_changes", cm)
        apply_b(b)
        cm_exit("squash_changes-exit", cm)
        info.label("meta-batch")
    else:
        apply_b(tb)
    expect_eq("order-independent-root", bytes(ta.root_hash), bytes(tb.root_hash),
              "roots of two histories reaching the same mapping")
    expect_eq("root-is-canonical", bytes(ta.root_hash), ref.root_hash, "root of history A")
    info.label("metamorphic")


def run_case(case):
    info = Info()
    facts = run_history(case, {"root"}, info)
    if case.get("meta"):
        _metamorphic(case, info)
    info.nontrivial = (
        ("threshold-node" in info.labels or "embedded-node" in info.labels)
        and facts["collapse"] > 0
    )
    return info
