"""C10 - NodeIterator enumerates contents in key order; next() is the strict successor."""
import itertools

from hypothesis import strategies as st

from trie import HexaryTrie
from trie.iter import NodeIterator

from ..hexcommon import item_lists, keyspecs, literal_keys, lookup_keys, resolve_key, resolve_val, valspecs
from ..ref.mpt import RefTrie
from ..ref.rlp_hp import rlp_encode
from ..faults import HookDB
from ..util import Info, cm_enter, cm_exit, expect, expect_eq, impl, nibbles_of
from .c01 import UNIVERSE

ID = "C10"
ATHERIS = True  # thorough tier: coverage-guided second engine over the same strategy/run_case
LEVEL = "exploration"
BUDGET = {"quick": 3500, "thorough": 200000}
RULE = (
    "case = (mapping of 0-12 items incl. the empty key, prefix-related keys, branch "
    "values, embedded nodes, built with some overwrites/deletes; query keys: index-based "
    "stored / truncated / extended / nibble-flipped neighbours and fresh keys, plus the "
    "whole neighbourhood of every stored key). Oracle: keys()/items()/values() == the "
    "sorted(model) projections exactly (order and multiplicity); next(q) == min(k in "
    "model, k > q) or None for every query, next() == min(model) or None; nodes() == the "
    "reference trie's preorder (prefix and RLP body, parents first, children left to "
    "right; for the empty trie [] or [((), blank)]) and each yielded node == "
    "traverse(prefix); the same NodeIterator object is observed again after later direct "
    "ops / a committed batch on its trie. Exhaustive part: all 64 subsets of a 6-key prefix-closed universe "
    "x 11 queries. Non-trivial = >=3 keys with a proper-prefix pair and a query strictly "
    "between two stored keys that is not stored itself. Distinct = canonical JSON."
    ' Added after the seeded rounds: shared sub-tries and 16-way fans in the item generator; zip(keys(), values()) of one iterator; two iterators (old root / new root) consumed in lock step; the database may call back from a read and run a complete inner next(); a fixed deep-chain case.'
)
LEVEL_TEXT = (
    "Exploration by model-based property testing against sorted(dict) and the reference "
    "trie's preorder, with successor queries over the full neighbourhood of stored keys; "
    "a small universe is enumerated completely."
)
LEVEL_NOTE = "Trusted: Python bytes ordering as 'ascending byte-string key order'; reference MPT preorder."
TECHNIQUE = "model-based property testing: iterator output vs sorted(dict) / reference preorder; strict-successor oracle; bounded-exhaustive universe"

QUERIES = UNIVERSE + [b"\x00\x00\x00", b"\x00\x0f", b"\x00\x11", b"\x02", b"\xff"]


def strategy(tier):
    n_items = 12 if tier == "quick" else 40
    return st.fixed_dictionaries(
        {
            "items": item_lists(tier, 0, n_items),
            "deletes": st.lists(st.integers(0, 40), max_size=3),
            "queries": st.lists(keyspecs(tier, near_weight=6), max_size=6),
            "later": st.one_of(st.just([]), item_lists(tier, 1, 3)),
            "later_batch": st.booleans(),
        }
    )


def exhaustive(tier):
    def gen():
        for r in range(len(UNIVERSE) + 1):
            for sub in itertools.combinations(UNIVERSE, r):
                yield {
                    "items": [(k, ("lit", b"L" * 33 if i % 2 else b"s")) for i, k in enumerate(sub)],
                    "deletes": [],
                    "queries": [("lit", q) for q in QUERIES],
                }

    yield ("all 64 subsets of the 6-key universe x 11 queries", gen())
    yield ("deep chain of nested prefix keys (200 levels, or as deep as set() can build if that is less)", iter([{"deep": 1}]))


def _run_deep(case, info):
    from ..deepchain import build_chain

    t, model, keys = build_chain(fan=True)
    it = impl("construct", NodeIterator, t)
    order = sorted(model)
    expect_eq("keys-in-order-each-once", impl("keys", lambda: list(it.keys())), order, "keys() of the deep chain")
    for q in keys[::17] + [keys[-1], keys[-1] + b"\x00", b""]:
        want = next((k for k in order if k > q), None)
        expect_eq("next-is-strict-successor", impl("next", it.next, q), want, f"next of a {len(q)}-byte key")
    info.label("deep-chain")
    info.nontrivial = len(keys) >= 100
    return info


def run_case(case):
    info = Info()
    if "deep" in case:
        return _run_deep(case, info)
    t = impl("construct", HexaryTrie, HookDB())
    model = {}
    for k, vs in case["items"]:
        v = resolve_val(vs, k)
        impl("set-never-raises", t.set, k, v)
        model[k] = v
    for i in case["deletes"]:
        if model:
            k = sorted(model)[i % len(model)]
            impl("delete-never-raises", t.delete, k)
            del model[k]
    it = impl("construct", NodeIterator, t)
    facts = _observe(t, it, model, case, info)
    first_root, first_model = bytes(t.root_hash), dict(model)
    # the SAME iterator object must keep describing the trie after the trie changed
    later = case.get("later") or []
    if later:
        cm = target = None
        if case.get("later_batch"):
            cm = impl("squash_changes", t.squash_changes)
            target = cm_enter("squash_changes", cm)
        for k, vs in later:
            v = resolve_val(vs, k)
            impl("set-never-raises", (target or t).set, k, v)
            model[k] = v
        if model:
            k = sorted(model)[len(model) // 2]
            impl("delete-never-raises", (target or t).delete, k)
            del model[k]
        if cm is not None:
            cm_exit("squash_changes-exit", cm)
        info.label("reused-iterator-after-" + ("batch" if cm is not None else "direct-ops"))
        _observe(t, it, model, case, info)
        # two walks over different roots of the same db, alive at the same time
        old_t = impl("construct", HexaryTrie, t.db, first_root)
        it_old = impl("construct", NodeIterator, old_t)
        it_new = impl("construct", NodeIterator, t)

        def lockstep():
            import itertools
            a, b = [], []
            for x, y in itertools.zip_longest(it_old.items(), it_new.items()):
                if x is not None:
                    a.append(x)
                if y is not None:
                    b.append(y)
            return a, b

        a, b = impl("items", lockstep)
        expect_eq("items-in-order-each-once", a, sorted(first_model.items()), "items() of the old root, walked in lock step with the new root")
        expect_eq("items-in-order-each-once", b, sorted(model.items()), "items() of the new root, walked in lock step with the old root")
        info.label("lock-step-walks")
    info.nontrivial = facts
    return info


def _observe(t, it, model, case, info):
    ref = RefTrie(model)
    expect_eq("root-precondition", bytes(t.root_hash), ref.root_hash, "root (precondition)")
    order = sorted(model)

    keys = impl("keys", lambda: list(it.keys()))
    expect_eq("keys-in-order-each-once", keys, order, "keys()")
    items = impl("items", lambda: list(it.items()))
    expect_eq("items-in-order-each-once", items, [(k, model[k]) for k in order], "items()")
    values = impl("values", lambda: list(it.values()))
    expect_eq("values-in-order-each-once", values, [model[k] for k in order], "values()")

    first = impl("next", it.next)
    expect_eq("next-none-is-smallest", first, order[0] if order else None, "next()")
    queries = set(lookup_keys(model))
    for spec in case["queries"]:
        queries.add(resolve_key(spec, order))
    between = False
    for q in sorted(queries):
        want = None
        for k in order:
            if k > q:
                want = k
                break
        got = impl("next", it.next, q)
        expect_eq("next-is-strict-successor", got, want, f"next({q!r})")
        if want is not None and q not in model and order and order[0] < q:
            between = True
    info.count("queries", len(queries))

    # two walks of the same NodeIterator object advanced alternately
    def zipped():
        return list(zip(it.keys(), it.values())), [p for p, _ in zip(it.nodes(), it.keys())]

    pairs, _ = impl("items", zipped)
    expect_eq("items-in-order-each-once", pairs, [(k, model[k]) for k in order], "zip(keys(), values()) of one iterator")
    # a database that calls back (an index, a lazy loader): a complete inner next() runs in the
    # middle of an outer one on the same iterator; both answers must be right
    if order and isinstance(t.db, HookDB):
        qs = sorted(queries)
        q_out, q_in = qs[len(qs) // 3], qs[(2 * len(qs)) // 3]
        inner = []
        t.db.arm(lambda kind, key: inner.append(it.next(q_in)), case.get("pick", len(qs)) % 3, kinds=("read",))
        got_out = impl("next", it.next, q_out)
        t.db.hook = None
        expect_eq("next-is-strict-successor", got_out, next((k for k in order if k > q_out), None),
                  f"next({q_out!r}) while another next() ran inside one of its database reads")
        if inner:
            expect_eq("next-is-strict-successor", inner[0], next((k for k in order if k > q_in), None),
                      f"the inner next({q_in!r})")
            info.label("re-entrant-next")
    nodes = impl("nodes", lambda: list(it.nodes()))
    want_nodes = [(n.prefix, n.enc) for n in ref.preorder()]
    got_nodes = [
        (tuple(int(x) for x in p), rlp_encode(n.raw) if n.raw != b"" else rlp_encode(b""))
        for p, n in nodes
    ]
    if not model:
        expect("nodes-preorder", got_nodes in ([], [((), rlp_encode(b""))]),
               lambda: f"nodes() of the empty trie gave {got_nodes!r}")
    else:
        expect_eq("nodes-preorder", got_nodes, want_nodes, "nodes() (prefix, body) sequence")
        for p, n in nodes:
            tr = impl("traverse", t.traverse, p)
            expect_eq("nodes-equal-traverse", n, tr, f"node yielded at {tuple(int(x) for x in p)} vs traverse")
    has_prefix_pair = any(a != b and b.startswith(a) for a in order for b in order)
    info.label("prefix-pair", has_prefix_pair)
    info.label("empty-key-stored", b"" in model)
    info.label("query-between", between)
    info.label("embedded-node", any(not n.hashed and n is not ref.root for n in ref.preorder()))
    return len(order) >= 3 and has_prefix_pair and between
