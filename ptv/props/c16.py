"""C16 - path and node encodings are exact bijections matching their specifications."""
import itertools

from hypothesis import strategies as st

from trie import constants
from trie.exceptions import InvalidNode
from trie.utils import binaries, nibbles as nib_utils, nodes

from ..ref import bintrie
from ..ref.rlp_hp import hp, hp_decode, rlp_encode
from ..util import Info, Raised, expect, expect_eq, impl

ID = "C16"
ATHERIS = True  # thorough tier: coverage-guided second engine over the same strategy/run_case
LEVEL = "exploration"
BUDGET = {"quick": 16000, "thorough": 600000}
RULE = (
    "Enumerated completely (exhaustive_parts): all nibble sequences of length <=4 (quick) "
    "/ <=5 (thorough) x terminator flag: encode_nibbles == Yellow-Paper HP (independent "
    "implementation, wiki KATs) and decode_nibbles inverts it; all byte strings of length "
    "<=2: bytes<->nibbles and bytes<->bits inverse both ways; all bit strings of length "
    "<=12 (quick) / <=16 (thorough): key-path packing == reference packing and "
    "round-trips, encode_kv_node -> parse_node returns the parts. Generated: long "
    "sequences (<=130 nibbles, <=520 bits), binary branch/leaf/kv encodings, malformed "
    "binary nodes built by construction in the three stated classes (empty/None, unknown "
    "type byte, impossible length) => InvalidNode, hexary leaf/extension/branch/blank "
    "nodes encoded with the reference RLP+HP then decode_node / get_node_type / "
    "extract_key must give the class and path back. Non-trivial = input of length >=1; "
    "distinct = canonical JSON of the input."
    ' Added after the seeded rounds: every nibble sequence is passed as tuple and as list, the terminator helpers are checked, encoded paths / byte strings also as bytearray, bit strings also as list and one-shot iterator, and the four is_*_node predicates must be one-hot for every generated node.'
)
LEVEL_TEXT = (
    "Exploration with exhaustively enumerated small domains (marked complete in the "
    "evidence) plus generated long inputs; oracles are independent implementations of "
    "HP / bit packing / RLP and round trips."
)
LEVEL_NOTE = "Malformations outside the three stated classes (e.g. a bad key-path header) are not asserted. Trusted: reference HP (wiki KATs), reference RLP, reference bit packing."
TECHNIQUE = "bounded-exhaustive enumeration + property-based round-trip / differential testing of encoders against independent reference encoders"

TYPE_CONST = {
    "blank": constants.NODE_TYPE_BLANK,
    "leaf": constants.NODE_TYPE_LEAF,
    "ext": constants.NODE_TYPE_EXTENSION,
    "branch": constants.NODE_TYPE_BRANCH,
}
H32 = st.binary(min_size=32, max_size=32)


def strategy(tier):
    n = st.integers(0, 15)
    bit = st.integers(0, 1)
    hexnode = st.one_of(
        st.tuples(st.just("leaf"), st.lists(n, max_size=66), st.binary(min_size=1, max_size=40)),
        st.tuples(st.just("ext"), st.lists(n, min_size=1, max_size=66), H32),
        st.tuples(st.just("ext-embedded"), st.lists(n, min_size=1, max_size=6), st.binary(min_size=1, max_size=3)),
        st.tuples(st.just("branch"), st.lists(st.one_of(st.just(b""), H32), min_size=16, max_size=16),
                  st.binary(max_size=40)),
        st.tuples(st.just("blank"), st.just([]), st.just(b"")),
    )
    bad = st.one_of(
        st.tuples(st.just("empty"), st.sampled_from([0, 1]), st.just(b"")),
        st.tuples(st.just("type"), st.integers(3, 255), st.binary(max_size=70)),
        st.tuples(st.just("branch-len"), st.integers(0, 140).filter(lambda x: x != 64), st.binary(min_size=140, max_size=140)),
        st.tuples(st.just("kv-len"), st.integers(0, 32), st.binary(min_size=32, max_size=32)),
        st.tuples(st.just("leaf-len"), st.just(0), st.just(b"")),
    )
    return st.one_of(
        st.tuples(st.just("hp"), st.lists(n, max_size=130), st.booleans()),
        st.tuples(st.just("bytes"), st.binary(max_size=70)),
        st.tuples(st.just("bits"), st.lists(bit, max_size=520), H32),
        st.tuples(st.just("binbranch"), H32, H32),
        st.tuples(st.just("binleaf"), st.binary(min_size=1, max_size=80)),
        st.tuples(st.just("badbin"), bad),
        st.tuples(st.just("hexnode"), hexnode),
    )


def exhaustive(tier):
    nl = 4 if tier == "quick" else 5
    bl = 12 if tier == "quick" else 16

    def hp_all():
        for length in range(nl + 1):
            for seq in itertools.product(range(16), repeat=length):
                yield ("hp", list(seq), False)
                yield ("hp", list(seq), True)

    def bytes_all():
        for length in range(3):
            for seq in itertools.product(range(256), repeat=length):
                yield ("bytes", bytes(seq))

    def bits_all():
        child = bytes(range(32))
        for length in range(bl + 1):
            for seq in itertools.product((0, 1), repeat=length):
                yield ("bits", list(seq), child)

    yield (f"all nibble sequences of length<={nl} x terminator", hp_all())
    yield ("all byte strings of length<=2", bytes_all())
    yield (f"all bit strings of length<={bl}", bits_all())


def run_case(case):
    info = Info()
    kind = case[0]
    info.label(kind)
    if kind == "hp":
        seq, term = tuple(case[1]), bool(case[2])
        arg = seq + (constants.NIBBLE_TERMINATOR,) if term else seq
        enc = impl("encode_nibbles", nib_utils.encode_nibbles, arg)
        expect_eq("hp-equals-yellow-paper", enc, hp(seq, term), f"encode_nibbles({arg})")
        # the same sequence given as a list (the library itself passes lists in places)
        enc_l = impl("encode_nibbles", nib_utils.encode_nibbles, list(arg))
        expect_eq("hp-equals-yellow-paper", enc_l, hp(seq, term), f"encode_nibbles(list {list(arg)})")
        for a in (arg, list(arg)):
            expect_eq("terminator-helpers", bool(impl("is_nibbles_terminated", nib_utils.is_nibbles_terminated, a)), term,
                      f"is_nibbles_terminated({a!r})")
            expect_eq("terminator-helpers", tuple(impl("add_nibbles_terminator", nib_utils.add_nibbles_terminator, a)),
                      seq + (constants.NIBBLE_TERMINATOR,), f"add_nibbles_terminator({a!r})")
            expect_eq("terminator-helpers", tuple(impl("remove_nibbles_terminator", nib_utils.remove_nibbles_terminator, a)),
                      seq, f"remove_nibbles_terminator({a!r})")
        dec = impl("decode_nibbles", nib_utils.decode_nibbles, enc)
        expect_eq("hp-decode-inverts", tuple(dec), arg, f"decode_nibbles(encode_nibbles({arg}))")
        # the encoded path as another bytes-like object (a database may hand out buffers)
        dec = impl("decode_nibbles", nib_utils.decode_nibbles, bytearray(enc))
        expect_eq("hp-decode-inverts", tuple(dec), arg, f"decode_nibbles(bytearray(encode_nibbles({arg})))")
        expect_eq("hp-decode-inverts", hp_decode(enc), (seq, term), "reference decode of the encoding")
        if term:
            lk = impl("compute_leaf_key", nodes.compute_leaf_key, seq)
            expect_eq("hp-equals-yellow-paper", lk, hp(seq, True), f"compute_leaf_key({seq})")
            lk = impl("compute_leaf_key", nodes.compute_leaf_key, list(arg))
            expect_eq("hp-equals-yellow-paper", lk, hp(seq, True), f"compute_leaf_key(list {list(arg)})")
        else:
            ek = impl("compute_extension_key", nodes.compute_extension_key, seq)
            expect_eq("hp-equals-yellow-paper", ek, hp(seq, False), f"compute_extension_key({seq})")
        info.nontrivial = len(seq) >= 1
    elif kind == "bytes":
        b = case[1]
        nibs = impl("bytes_to_nibbles", nib_utils.bytes_to_nibbles, b)
        want = tuple(x for c in b for x in (c >> 4, c & 15))
        expect_eq("bytes-to-nibbles", tuple(nibs), want, f"bytes_to_nibbles({b!r})")
        back = impl("nibbles_to_bytes", nib_utils.nibbles_to_bytes, nibs)
        expect_eq("nibbles-bytes-inverse", back, b, f"nibbles_to_bytes(bytes_to_nibbles({b!r}))")
        bits = impl("encode_to_bin", binaries.encode_to_bin, b)
        expect_eq("bytes-to-bits", tuple(bits), bintrie.bits_of(b), f"encode_to_bin({b!r})")
        back = impl("decode_from_bin", binaries.decode_from_bin, bits)
        expect_eq("bits-bytes-inverse", back, b, f"decode_from_bin(encode_to_bin({b!r}))")
        # the bit string as a list and as a lazily produced stream
        back = impl("decode_from_bin", binaries.decode_from_bin, list(bits))
        expect_eq("bits-bytes-inverse", back, b, f"decode_from_bin(list of bits of {b!r})")
        back = impl("decode_from_bin", binaries.decode_from_bin, iter(list(bits)))
        expect_eq("bits-bytes-inverse", back, b, f"decode_from_bin(iterator over the bits of {b!r})")
        nibs2 = impl("bytes_to_nibbles", nib_utils.bytes_to_nibbles, bytearray(b))
        expect_eq("bytes-to-nibbles", tuple(nibs2), want, f"bytes_to_nibbles(bytearray({b!r}))")
        info.nontrivial = len(b) >= 1
    elif kind == "bits":
        bits, child = tuple(case[1]), case[2]
        raw = bytes(bits)
        packed = impl("encode_from_bin_keypath", binaries.encode_from_bin_keypath, raw)
        expect_eq("keypath-packing-equals-reference", packed, bintrie.pack_path(bits), f"packing of {len(bits)} bits")
        back = impl("decode_to_bin_keypath", binaries.decode_to_bin_keypath, packed)
        expect_eq("keypath-packing-roundtrip", tuple(back), bits, f"unpacking of {len(bits)} bits")
        if bits:
            node = impl("encode_kv_node", nodes.encode_kv_node, raw, child)
            expect_eq("kv-encoding", node, b"\x00" + bintrie.pack_path(bits) + child, "encode_kv_node")
            parsed = impl("parse_node", nodes.parse_node, node)
            expect_eq("kv-node-parses-back", (parsed[0], tuple(parsed[1]), parsed[2]),
                      (constants.KV_TYPE, bits, child), "parse_node(encode_kv_node(...))")
        info.nontrivial = len(bits) >= 1
    elif kind == "binbranch":
        left, right = case[1], case[2]
        node = impl("encode_branch_node", nodes.encode_branch_node, left, right)
        expect_eq("branch-encoding", node, b"\x01" + left + right, "encode_branch_node")
        parsed = impl("parse_node", nodes.parse_node, node)
        expect_eq("branch-node-parses-back", tuple(parsed), (constants.BRANCH_TYPE, left, right), "parse_node(branch)")
        info.nontrivial = True
    elif kind == "binleaf":
        v = case[1]
        node = impl("encode_leaf_node", nodes.encode_leaf_node, v)
        expect_eq("leaf-encoding", node, b"\x02" + v, "encode_leaf_node")
        parsed = impl("parse_node", nodes.parse_node, node)
        expect_eq("leaf-node-parses-back", tuple(parsed), (constants.LEAF_TYPE, None, v), "parse_node(leaf)")
        info.nontrivial = True
    elif kind == "badbin":
        cls, a, data = case[1]
        if cls == "empty":
            node = None if a else b""
        elif cls == "type":
            node = bytes([a]) + data
        elif cls == "branch-len":
            node = b"\x01" + data[:a]
        elif cls == "kv-len":
            node = b"\x00" + data[:a]
        else:
            node = b"\x02"
        r = impl("malformed-node-raises-InvalidNode", nodes.parse_node, node, allowed=(InvalidNode,))
        expect("malformed-node-raises-InvalidNode", isinstance(r, Raised),
               lambda: f"parse_node({node!r}) returned {r!r} instead of raising InvalidNode")
        info.label("badbin-" + cls)
        info.nontrivial = True
    else:
        k, a, b = case[1]
        if k == "leaf":
            raw, typ, path = [hp(a, True), b], "leaf", tuple(a)
        elif k == "ext":
            raw, typ, path = [hp(a, False), b], "ext", tuple(a)
        elif k == "ext-embedded":
            raw, typ, path = [hp(a, False), [hp((1,), True), b]], "ext", tuple(a)
        elif k == "branch":
            raw, typ, path = list(a) + [b], "branch", None
        else:
            raw, typ, path = b"", "blank", None
        enc = rlp_encode(raw)
        node = impl("decode_node", nodes.decode_node, enc if raw != b"" else b"")
        expect("hexary-node-decodes", isinstance(node, (bytes, list)),
               lambda: f"decode_node of a {k} node returned {node!r}")
        expect_eq("hexary-node-decodes", rlp_encode(node) if node != b"" else b"\x80", enc, f"decode_node of a {k} node")
        t = impl("get_node_type", nodes.get_node_type, node)
        expect_eq("hexary-node-classifies", t, TYPE_CONST[typ], f"get_node_type of a {k} node")
        if path is not None:
            got = impl("extract_key", nodes.extract_key, node)
            expect_eq("hexary-node-yields-path", tuple(got), path, f"extract_key of a {k} node")
        # the individual predicates agree with the classification (exactly one holds)
        for name, fn, want in (
            ("is_blank_node", nodes.is_blank_node, typ == "blank"),
            ("is_leaf_node", nodes.is_leaf_node, typ == "leaf"),
            ("is_extension_node", nodes.is_extension_node, typ == "ext"),
            ("is_branch_node", nodes.is_branch_node, typ == "branch"),
        ):
            expect_eq("hexary-node-classifies", bool(impl(name, fn, node)), want, f"{name} of a {k} node")
        info.label("hexnode-" + k)
        info.nontrivial = True
    return info
