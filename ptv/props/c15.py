"""C15 - SparseMerkleProof stays in sync from streamed updates alone."""
from hypothesis import strategies as st

from trie.exceptions import ValidationError
from trie.smt import SparseMerkleProof, SparseMerkleTree

from ..ref.smt import RefSMT
from ..util import Info, Raised, as_bytes, as_bytes_tuple, expect, expect_eq, impl
from .c14 import DEFAULTS, _flipbit, key_sizes, resolve_smt_key, resolve_smt_val, smt_ops

ID = "C15"
LEVEL = "exploration"
BUDGET = {"quick": 5000, "thorough": 200000}
RULE = (
    "case = (key_size, default, a few initial tree ops, a tracked key, a stream of "
    "updates: to keys differing from the tracked key at a drawn bit position (plus, for "
    "key_size <= 2, one update per EVERY bit position), to the tracked key itself, "
    "repeats, deletes; each update's node-hash list is truncated: for key_size <= 2 to "
    "EVERY length 0..depth, otherwise to a drawn length and the boundary lengths b, b+1, "
    "depth). Oracle: a list shorter than first-differing-bit+1 must raise "
    "ValidationError and leave (value, branch) unchanged when applied to the live proof; "
    "every sufficient length applied to a clone must be accepted and give the same "
    "state; the minimal sufficient prefix is then fed to the live proof. After every "
    "update proof.value / branch / root_hash == reference value / sibling list / root of "
    "the dict model (independent sparse-Merkle reference), with no query of the tree "
    "between creation and comparison. Non-trivial = >=1 rejected truncation, >=1 "
    "minimal-length acceptance, divergence at >=3 distinct depths. Distinct = canonical "
    "JSON."
    ' Added after the seeded rounds: the proof is not read after every update (drawn per update), bit-complement keys, empty-subtree-like values, and a fixed case that uses the proof with only 100 frames of stack left.'
)
LEVEL_TEXT = (
    "Exploration by stateful property testing of the proof object against the reference "
    "sparse Merkle tree, with per-update enumeration of truncation lengths (all lengths "
    "for key sizes 1-2) and of divergence depths."
)
LEVEL_NOTE = "The proof is created from the public get/branch when the key is readable and from the tree's internal _get when it is blank (no public way). Trusted: reference SMT."
TECHNIQUE = "stateful property-based testing vs reference sparse Merkle tree; enumeration of truncation lengths and divergence depths per case"


def strategy(tier):
    trunc = st.one_of(st.integers(0, 256), st.just(0), st.just(256))
    return st.fixed_dictionaries(
        {
            "key_size": key_sizes(tier),
            "default": st.sampled_from(DEFAULTS),
            "base": st.binary(min_size=32, max_size=32),
            "init": st.one_of(st.just([]), smt_ops(4)),
            "tracked": st.sampled_from([("base", 0), ("flip", 3), ("flip", -1), ("prev", 0), ("prev", 1)]),
            "ops": smt_ops(8 if tier == "quick" else 24),
            "trunc": st.lists(trunc, min_size=24, max_size=24),
            "every_bit": st.booleans(),
            "sync": st.lists(st.booleans(), min_size=24, max_size=24),
        }
    )


def exhaustive(tier):
    yield ("32-byte keys: the proof used by a caller with only 100 frames of stack left",
           iter([{"headroom": 100, "default": d} for d in (b"", b"default")]))


def _run_headroom(case, info):
    from ..util import call_with_headroom

    h, default = case["headroom"], case["default"]
    ref = RefSMT(32, default)
    tree = impl("construct", SparseMerkleTree, key_size=32, default=default)
    K = bytes(range(32))
    model = {K: b"mine"}
    impl("set", tree.set, K, b"mine")
    proof = impl("construct-proof", SparseMerkleProof, K, b"mine", impl("branch", tree.branch, K))
    others = [bytes([K[0] ^ 0x80]) + K[1:], K[:16] + bytes([K[16] ^ 1]) + K[17:], K[:-1] + bytes([K[-1] ^ 1]), K]
    for i, k in enumerate(others):
        upd = impl("set", tree.set, k, b"v%d" % i)
        model[k] = b"v%d" % i
        impl("sufficient-update-accepted", call_with_headroom, h, lambda: proof.update(k, b"v%d" % i, upd))
        root = impl("root_hash", call_with_headroom, h, lambda: proof.root_hash)
        expect_eq("proof-root-in-sync", as_bytes("proof-root-in-sync", root, "proof.root_hash"), ref.root(model),
                  "proof.root_hash read from a deep call stack")
    info.label("low-stack-headroom")
    info.nontrivial = True
    return info


def _state(proof):
    return (as_bytes("proof-value-in-sync", proof.value, "proof.value"), as_bytes_tuple("proof-branch-in-sync", proof.branch, "proof.branch"))


def run_case(case):
    info = Info()
    if "headroom" in case:
        return _run_headroom(case, info)
    ks = case["key_size"]
    depth = ks * 8
    default = case["default"]
    ref = RefSMT(ks, default)
    if ks == 32 and default == b"":
        tree = impl("construct", SparseMerkleTree)  # the documented defaults
    elif default == b"":
        tree = impl("construct", SparseMerkleTree, ks)
    else:
        tree = impl("construct", SparseMerkleTree, key_size=ks, default=default)
    model = {}
    written = []

    def tree_op(kind, k, val):
        val = resolve_smt_val(val, ref)
        if kind == "set":
            ret = impl("set", tree.set, k, val)
            model[k] = val
        else:
            ret = impl("delete", tree.delete, k)
            model[k] = default
            val = default
        if k not in written:
            written.append(k)
        return val, ret

    for kind, kspec, val, _ in case["init"]:
        tree_op(kind, resolve_smt_key(kspec, ks, case["base"], written), val)
    K = resolve_smt_key(case["tracked"], ks, case["base"], written)
    kint = int.from_bytes(K, "big")
    cur = model.get(K, default)
    if cur != b"":
        value = impl("get", tree.get, K)
        branch = impl("branch", tree.branch, K)
    else:
        getter = getattr(tree, "_get", None)
        if getter is not None:
            value, branch = impl("_get", getter, K)
        else:  # another internal layout: start from the reference value and sibling list
            value, branch = cur, ref.path_and_siblings(model, K)[1]
        info.label("tracked-key-blank-at-creation")
    proof = impl("construct-proof", SparseMerkleProof, K, value, branch)

    def expected():
        _, sibs, _ = ref.path_and_siblings(model, K)
        return (model.get(K, default), sibs)

    def check_sync(p, label):
        want = expected()
        expect_eq("proof-value-in-sync", as_bytes("proof-value-in-sync", p.value, "proof.value"), want[0], f"proof.value {label}")
        expect_eq("proof-branch-in-sync", as_bytes_tuple("proof-branch-in-sync", p.branch, "proof.branch"), want[1], f"proof.branch {label}")
        expect_eq("proof-root-in-sync", as_bytes("proof-root-in-sync", impl("root_hash", lambda: p.root_hash), "proof.root_hash"), ref.root(model), f"proof.root_hash {label}")
        expect_eq("proof-key", as_bytes("proof-key", p.key, "proof.key"), K, "proof.key")

    check_sync(proof, "at creation")
    ops = [(kind, resolve_smt_key(kspec, ks, case["base"], written), val) for kind, kspec, val, _ in case["ops"]]
    if ks <= 2 and case["every_bit"]:
        ops += [("set", _flipbit(K, b), bytes([b + 1])) for b in range(depth)]
        info.label("every-bit-position")
    rejected = minimal = 0
    depths = set()
    for no, (kind, k, val) in enumerate(ops):
        val, updates = tree_op(kind, k, val)
        updates = tuple(updates)
        diff = kint ^ int.from_bytes(k, "big")
        b = None if diff == 0 else depth - diff.bit_length()  # first differing bit, 0 = MSB
        if b is not None:
            depths.add(b)
        else:
            info.label("update-to-own-key")
        need = 0 if b is None else b + 1
        if ks <= 2:
            lengths = list(range(depth + 1))
        else:
            lengths = sorted({case["trunc"][no % 24] % (depth + 1), max(need - 1, 0), need, depth, 0})
        want = expected()
        for n in lengths:
            if n < need:
                before = _state(proof)
                r = impl("short-update-raises-ValidationError", proof.update, k, val, updates[:n],
                         allowed=(ValidationError,))
                expect("short-update-rejected", isinstance(r, Raised),
                       lambda: f"update with {n} hashes accepted although the keys first differ at bit {b}")
                expect_eq("rejected-update-changes-nothing", _state(proof), before, "proof after a rejected update")
                rejected += 1
            else:
                clone = impl("construct-proof", SparseMerkleProof, K, proof.value, proof.branch)
                impl("sufficient-update-accepted", clone.update, k, val, updates[:n])
                expect_eq("sufficient-prefix-gives-same-state", _state(clone), want,
                          f"proof state after an update truncated to {n} (needs {need})")
                info.count("truncations")
        impl("sufficient-update-accepted", proof.update, k, val, updates[:need])
        minimal += 1
        # the proof is not always read between two updates (several may be pending)
        sync = case.get("sync") or [True]
        if sync[no % len(sync)] or no == len(ops) - 1:
            check_sync(proof, f"after update {no} ({kind} {k.hex()})")
        else:
            info.label("updates-without-read-in-between")
    info.label("rejected-truncation", rejected > 0)
    info.label("depths>=3", len(depths) >= 3)
    info.nontrivial = rejected >= 1 and minimal >= 1 and len(depths) >= 3
    return info
