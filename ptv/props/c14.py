"""C14 - SparseMerkleTree is a fixed-depth map whose root and branches always verify."""
import itertools

from hypothesis import strategies as st

from trie.smt import SparseMerkleTree, calc_root

from ..ref.smt import RefSMT, fold_root
from ..util import Info, Raised, as_bytes, as_bytes_tuple, call_with_headroom, expect, expect_eq, impl

ID = "C14"
LEVEL = "exploration"
BUDGET = {"quick": 4000, "thorough": 150000}
RULE = (
    "case = (key_size in {1,2,3,4,8,32} (thorough: all of 1..32), default in {b'', 00, "
    "'default'}, history of set (incl. blank and default values, repeated writes) / "
    "delete in method and dict syntax; keys are bit-directed: a base key, the base with "
    "one bit flipped at a drawn depth (uniform over depth), random keys). Oracle: dict "
    "model key -> last value (delete => default); root_hash == reference sparse root "
    "(recursive over the depth-8*key_size tree with precomputed default subtrees, "
    "anchored by the calc_root docstring value); get/exists/[]/in (blank => KeyError / "
    "False); for every readable key calc_root(k, v, branch(k)) == root and branch == "
    "reference siblings; set/delete return == reference path hashes root-to-leaf; "
    "from_db over the same db and root reads identically (default args when key_size=32 "
    "and blank default); everything cleared => initial root. Exhaustive part: key_size=1, "
    "all 2-op histories over 256 keys x 3 values (thorough; quick: 16 keys). Non-trivial "
    "= >=2 written keys diverging at depth >=8 and a delete with a non-blank default. "
    "Distinct = canonical JSON."
    ' Added after the seeded rounds: values that are byte-for-byte empty-subtree node encodings / hashes of the tree itself, bit-complement keys, writes through the from_db view, default constructor arguments, and a fixed case that runs every operation on 32-byte keys with only 100 frames of stack left.'
)
LEVEL_TEXT = (
    "Exploration by model-based + differential property testing against a dict model "
    "and an independent sparse-Merkle reference (root, path hashes, siblings), checked "
    "after every operation including the returned update tuples and from_db views."
)
LEVEL_NOTE = "Leaf of a key = keccak(last written value, or the default if never written / cleared); an explicitly written blank value hashes as b''. Trusted: reference SMT, keccak."
TECHNIQUE = "model-based + differential property testing vs reference sparse Merkle tree; bounded-exhaustive 2-op histories for key_size=1"

DEFAULTS = [b"", b"\x00", b"default"]
EMPTY_NODE = b"\xff<empty-subtree-node>"
EMPTY_HASH = b"\xff<empty-subtree-hash>"


def resolve_smt_val(val, ref):
    """Special values that coincide with nodes of the tree itself."""
    if val.startswith(EMPTY_NODE):
        lvl = max(ref.depth - val[-1], 1)
        return ref.defaults[lvl] + ref.defaults[lvl]
    if val.startswith(EMPTY_HASH):
        return ref.defaults[max(ref.depth - val[-1], 0)]
    return val


def _flipbit(key, pos):
    n = len(key) * 8
    i = int.from_bytes(key, "big") ^ (1 << (n - 1 - (pos % n)))
    return i.to_bytes(len(key), "big")


def key_sizes(tier):
    if tier == "quick":
        return st.sampled_from([1, 1, 2, 2, 2, 3, 3, 4, 4, 4, 2, 3, 1, 4, 2, 3, 4, 1, 8, 32])
    return st.one_of(st.sampled_from([1, 2, 3, 4, 8, 32]), st.integers(1, 32))


def smt_ops(max_ops):
    kspec = st.one_of(
        st.tuples(st.just("base"), st.just(0)),
        st.tuples(st.just("flip"), st.integers(0, 255)),
        st.tuples(st.just("flip"), st.integers(0, 255)),
        st.tuples(st.just("flip"), st.sampled_from([0, 7, 8, 9, -1, -2, 15, 16])),
        st.tuples(st.just("rand"), st.binary(min_size=32, max_size=32)),
        st.tuples(st.just("compl"), st.integers(0, 255)),
        st.tuples(st.just("prev"), st.integers(0, 20)),
        st.tuples(st.just("prev"), st.integers(0, 20)),
    )
    val = st.one_of(st.binary(min_size=1, max_size=4), st.binary(min_size=1, max_size=40),
                    st.sampled_from([b"", b"\x00", b"default", b"\x01"]),
                    # resolved at run time: the encoding of an empty-subtree node j levels above
                    # the leaves / the hash of such a node (values that look like tree nodes)
                    st.sampled_from([EMPTY_NODE + bytes([j]) for j in range(4)]
                                    + [EMPTY_HASH + bytes([j]) for j in range(3)]))
    syn = st.integers(0, 1)
    op = st.one_of(
        st.tuples(st.just("set"), kspec, val, syn),
        st.tuples(st.just("set"), kspec, val, syn),
        st.tuples(st.just("set"), kspec, val, syn),
        st.tuples(st.just("del"), kspec, st.just(b""), syn),
    )
    return st.lists(op, min_size=1, max_size=max_ops)


def strategy(tier):
    return st.fixed_dictionaries(
        {
            "key_size": key_sizes(tier),
            "default": st.sampled_from(DEFAULTS),
            "base": st.binary(min_size=32, max_size=32),
            "ops": smt_ops(10 if tier == "quick" else 30),
        }
    )


def exhaustive(tier):
    keys = list(range(256)) if tier != "quick" else [0, 1, 2, 3, 4, 8, 16, 32, 64, 127, 128, 129, 192, 254, 255, 85]
    vals = [b"a", b"", b"\x00"]

    def gen():
        single = [("set", k, v) for k in keys for v in vals] + [("del", k, b"") for k in keys]
        for d in (b"", b"\x00"):
            for a in single:
                for b in single[:: (1 if tier != "quick" else 3)]:
                    yield {"key_size": 1, "default": d, "base": b"\x00" * 32,
                           "ops": [(a[0], ("rand", bytes([a[1]]) * 32), a[2], 0),
                                   (b[0], ("rand", bytes([b[1]]) * 32), b[2], 1)]}

    yield ("key_size=1: 2-op histories over the key set x {a, blank, 00} x set/delete x 2 defaults", gen())
    yield ("32-byte keys used by a caller with only 100 frames of stack left",
           iter([{"headroom": 100, "key_size": 32, "default": d} for d in (b"", b"default")]))


def resolve_smt_key(spec, ks, base, written):
    b = base[:ks]
    if spec[0] == "base":
        return b
    if spec[0] == "flip":
        return _flipbit(b, spec[1])
    if spec[0] == "rand":
        return spec[1][:ks]
    if spec[0] == "compl":
        # the base key with every bit from position p on complemented
        n = ks * 8
        p = spec[1] % n
        i = int.from_bytes(b, "big") ^ ((1 << (n - p)) - 1)
        return i.to_bytes(ks, "big")
    if written:
        return written[spec[1] % len(written)]
    return b


def check_tree(tree, ref, model, touched_keys, root0, info, label):
    want_root = ref.root(model)
    expect_eq("root-is-merkle-root", as_bytes("root-is-merkle-root", tree.root_hash, "root_hash"), want_root, f"root_hash {label}")
    for k in touched_keys:
        v = model.get(k, ref.default)
        got = impl("get", tree.get, k, allowed=(KeyError,))
        ex = impl("exists", tree.exists, k)
        inn = impl("contains", tree.__contains__, k)
        gi = impl("getitem", tree.__getitem__, k, allowed=(KeyError,))
        if v == b"":
            expect("blank-reads-absent", isinstance(got, Raised) and isinstance(gi, Raised),
                   f"get({k.hex()}) of a blank value returned {got!r} {label}")
            expect_eq("exists-matches", ex, False, f"exists({k.hex()}) {label}")
            expect_eq("contains-matches", inn, False, f"{k.hex()} in tree {label}")
            br = impl("branch", tree.branch, k, allowed=(KeyError,))
            expect("blank-reads-absent", isinstance(br, Raised), f"branch({k.hex()}) of a blank value returned")
        else:
            expect_eq("get-reflects-last-write", got, v, f"get({k.hex()}) {label}")
            expect_eq("get-reflects-last-write", gi, v, f"tree[{k.hex()}] {label}")
            expect_eq("exists-matches", ex, True, f"exists({k.hex()}) {label}")
            expect_eq("contains-matches", inn, True, f"{k.hex()} in tree {label}")
            br = impl("branch", tree.branch, k)
            _, sibs, _ = ref.path_and_siblings(model, k)
            expect_eq("branch-is-sibling-list", as_bytes_tuple("branch-is-sibling-list", br, "branch()"), sibs, f"branch({k.hex()}) {label}")
            cr = impl("calc_root", calc_root, k, v, br)
            expect_eq("calc_root-verifies", as_bytes("calc_root-verifies", cr, "calc_root()"), want_root, f"calc_root({k.hex()}, value, branch) {label}")
            expect_eq("calc_root-verifies", fold_root(k, v, tuple(br)), want_root, f"independent fold of branch({k.hex()}) {label}")


def _run_headroom(case, info):
    """The tree is iterative by design: every operation works from deep down a caller's stack."""
    ks, default, h = case["key_size"], case["default"], case["headroom"]
    ref = RefSMT(ks, default)
    tree = impl("construct", SparseMerkleTree, key_size=ks, default=default)
    model = {}
    keys = [bytes([i]) * ks for i in (0, 1, 0x80, 0xFF)] + [b"\x00" * (ks - 1) + b"\x01"]
    for i, k in enumerate(keys):
        ret = impl("set", call_with_headroom, h, lambda: tree.set(k, b"v%d" % i))
        model[k] = b"v%d" % i
        path, sibs, root = ref.path_and_siblings(model, k)
        expect_eq("update-returns-path-hashes", as_bytes_tuple("update-returns-path-hashes", ret, "set()"), path, "set() from a deep call stack")
        expect_eq("root-is-merkle-root", as_bytes("root-is-merkle-root", tree.root_hash, "root_hash"), root, "root from a deep call stack")
        got = impl("get", call_with_headroom, h, lambda: (tree.get(k), tree.exists(k), tree.branch(k)))
        expect_eq("get-reflects-last-write", got[:2], (model[k], True), "get/exists from a deep call stack")
        cr = impl("calc_root", call_with_headroom, h, lambda: calc_root(k, model[k], got[2]))
        expect_eq("calc_root-verifies", as_bytes("calc_root-verifies", cr, "calc_root()"), root, "calc_root from a deep call stack")
    impl("delete", call_with_headroom, h, lambda: tree.delete(keys[0]))
    model[keys[0]] = default
    expect_eq("root-is-merkle-root", as_bytes("root-is-merkle-root", tree.root_hash, "root_hash"), ref.root(model), "root after delete from a deep call stack")
    info.label("low-stack-headroom")
    info.nontrivial = True
    return info


def run_case(case):
    info = Info()
    if "headroom" in case:
        return _run_headroom(case, info)
    ks = case["key_size"]
    default = case["default"]
    info.label(f"key_size={ks}" if ks in (1, 2, 3, 4, 8, 32) else "key_size=other")
    info.label("default-blank" if default == b"" else "default-nonblank")
    ref = RefSMT(ks, default)
    if ks == 32 and default == b"":
        tree = impl("construct", SparseMerkleTree)  # the documented defaults
    elif default == b"":
        tree = impl("construct", SparseMerkleTree, ks)
    else:
        tree = impl("construct", SparseMerkleTree, key_size=ks, default=default)
    root0 = ref.root({})
    expect_eq("initial-root", as_bytes("root-is-merkle-root", tree.root_hash, "root_hash"), root0, "root of the fresh tree")
    model = {}
    written = []
    delete_nonblank = False
    for no, (kind, kspec, val, syn) in enumerate(case["ops"]):
        k = resolve_smt_key(kspec, ks, case["base"], written)
        val = resolve_smt_val(val, ref)
        if kind == "set":
            if syn:
                ret = impl("set", tree.__setitem__, k, val)
                ret = None
            else:
                ret = impl("set", tree.set, k, val)
            model[k] = val
        else:
            if syn:
                impl("delete", tree.__delitem__, k)
                ret = None
            else:
                ret = impl("delete", tree.delete, k)
            model[k] = default
            delete_nonblank |= default != b""
            info.label("delete")
        if k not in written:
            written.append(k)
        if ret is not None:
            path, _, _ = ref.path_and_siblings(model, k)
            expect_eq("update-returns-path-hashes", as_bytes_tuple("update-returns-path-hashes", ret, "returned path hashes"), path,
                      f"{kind}({k.hex()}) return value")
        neighbours = [k, _flipbit(k, -1), _flipbit(k, 0)] + written[-4:]
        check_tree(tree, ref, model, neighbours, root0, info, f"after op {no}")
    # from_db view
    if ks == 32 and default == b"":
        view = impl("from_db", SparseMerkleTree.from_db, tree.db, tree.root_hash)
        info.label("from_db-default-args")
    else:
        view = impl("from_db", SparseMerkleTree.from_db, tree.db, tree.root_hash, ks, default)
    expect("from_db-reads-identically", isinstance(view, SparseMerkleTree), lambda: f"from_db returned {view!r}")
    check_tree(view, ref, model, written, root0, info, "through from_db")
    # writes through the from_db view behave like writes to a tree of that configuration
    if written:
        vk = written[len(written) // 2]
        vmodel = dict(model)
        ret = impl("delete", view.delete, vk)
        vmodel[vk] = default
        path, _, _ = ref.path_and_siblings(vmodel, vk)
        expect_eq("update-returns-path-hashes", as_bytes_tuple("update-returns-path-hashes", ret, "returned path hashes"), path, "from_db view delete() return value")
        check_tree(view, ref, vmodel, [vk] + written[:2], root0, info, "after a delete through the from_db view")
        ret = impl("set", view.set, vk, b"via-view")
        vmodel[vk] = b"via-view"
        check_tree(view, ref, vmodel, [vk], root0, info, "after a set through the from_db view")
        expect_eq("root-is-merkle-root", as_bytes("root-is-merkle-root", tree.root_hash, "root_hash"), ref.root(model), "original tree's root after writes through a view")
    check_tree(tree, ref, model, written, root0, info, "at the end")
    # clear everything => initial root
    for k in written:
        impl("delete", tree.delete, k)
        model[k] = default
    expect_eq("all-cleared-is-initial-root", as_bytes("root-is-merkle-root", tree.root_hash, "root_hash"), root0, "root after clearing every key")
    ints = [int.from_bytes(k, "big") for k in written]
    deep = any((a ^ b) and (a ^ b).bit_length() <= ks * 8 - 8 for a, b in itertools.combinations(ints, 2))
    info.label("deep-divergence", deep)
    info.nontrivial = deep and delete_nonblank
    return info
