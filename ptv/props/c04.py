"""C04 - non-pruning tries never lose or alter history: old roots stay readable."""
from hypothesis import strategies as st

from trie import HexaryTrie

from ..faults import FAULTS, AppendOnlyGuardDB
from ..hexcommon import lookup_keys, simple_ops
from ..hexrun import apply_simple, check_lookup
from ..ref.mpt import BLANK_ROOT
from ..util import Abort, Info, abort_exception, cm_enter, cm_exit, expect, expect_eq, impl

ID = "C04"
LEVEL = "fault_enumeration"
BUDGET = {"quick": 6000, "thorough": 600000}
RULE = (
    "case = interleaved history of 1-3 NON-pruning tries over one shared guard database: "
    "direct ops, committed/aborted squash_changes batches, re-opening a trie at an old "
    "root, writes through an at_root(old) snapshot. Oracles: (i) the guard db records "
    "any write that is not keccak-addressed, any overwrite with a different value, any "
    "delete/pop (checked after every step, plus snapshot superset comparison); (ii) a "
    "ledger root -> dict model of EVERY root any trie ever had; after each step a sample "
    "(final step: all) of ledger roots is re-read through HexaryTrie(db, root) and "
    "trie.at_root(root) and must return exactly that model; (iii) crash points: for each "
    "mutating step the number W of db writes is measured on a clone and the step is "
    "re-executed with write n failing for EVERY n in 0..W-1 (counters.crash_points): "
    "after the injected fault the trie's root is unchanged, (i)-(ii) hold, and retrying "
    "the step without fault gives the fault-free root. Non-trivial = ledger has >=3 "
    "distinct roots, >=1 effective delete, >=1 crash point inside a batch commit. "
    "Distinct = canonical JSON."
    " Added after the seeded rounds: batches through an at_root snapshot, two batches open at the same time on one trie object, migrating the store (every trie's db attribute re-pointed at a copy), non-pruning spelled False / None / 0 / default, failing writes raising one of three exception types, one fixed very large batch (3800 / 12000 sets) that re-creates historical nodes first and drops them last."
)
LEVEL_TEXT = (
    "Fault enumeration: every database write of every mutating step of a generated "
    "multi-trie history is made to fail in turn (on cloned state), and after each fault "
    "and each step all historical roots in a ledger are re-read against their models; "
    "an append-only guard database observes every write and delete."
)
LEVEL_NOTE = "Crash points are failing __setitem__ calls of the mapping passed as db. Pruning tries are never attached to the shared db (outside the claim). Trusted: dict model, keccak."
TECHNIQUE = "stateful property-based testing with per-step enumeration of db write faults; append-only guard db + root ledger re-reads"


def strategy(tier):
    big = tier != "quick"
    op = simple_ops(tier, near_weight=4)
    ti = st.integers(0, 2)
    li = st.integers(0, 50)
    step = st.one_of(
        st.tuples(st.just("op"), ti, op),
        st.tuples(st.just("op"), ti, op),
        st.tuples(st.just("op"), ti, op),
        st.tuples(st.just("batch"), ti, st.lists(op, min_size=1, max_size=6),
                  st.one_of(st.just(-1), st.just(-1), st.integers(0, 6))),
        st.tuples(st.just("reopen"), ti, li),
        # the node store is migrated: every trie's public `db` attribute is pointed at a copy
        st.tuples(st.just("migrate"), ti),
        st.tuples(st.just("snapwrite"), ti, li, op),
        st.tuples(st.just("snapbatch"), ti, li, st.lists(op, min_size=1, max_size=4)),
        # two batches open at the same time on the same trie object: A opened, B opened, B left
        # (committed or aborted), more ops in A, A committed
        st.tuples(st.just("overlap"), ti, st.lists(op, min_size=1, max_size=3),
                  st.lists(op, min_size=1, max_size=3), st.booleans(), st.lists(op, max_size=2)),
    )
    return st.fixed_dictionaries(
        {
            "ntries": st.integers(1, 3),
            "steps": st.lists(step, min_size=1, max_size=30 if big else 12),
        }
    )


def exhaustive(tier):
    sizes = (3800,) if tier == "quick" else (3800, 12000)

    def gen():
        for n in sizes:
            yield {"big": n}

    yield (f"one very large batch ({', '.join(map(str, sizes))} sets) that re-creates historical nodes before and drops them after", gen())


def _run_big(case, info):
    n = case["big"]
    db = AppendOnlyGuardDB()
    t = impl("construct", HexaryTrie, db)
    ledger = {}
    model = {}
    keys = [b"hist" + bytes([i]) for i in range(12)]
    for rnd in range(3):
        for i, k in enumerate(keys):
            v = bytes([rnd * 16 + i]) * (33 + rnd)
            impl("set-never-raises", t.set, k, v)
            model[k] = v
        ledger[bytes(t.root_hash)] = dict(model)
    old_values = {k: bytes([0 * 16 + i]) * 33 for i, k in enumerate(keys)}
    snapshot = dict(db)
    cm = impl("squash_changes", t.squash_changes)
    b = cm_enter("squash_changes", cm)
    for k in keys[:6]:  # back to the values of the first round: re-creates historical nodes
        impl("set-never-raises", b.set, k, old_values[k])
        model[k] = old_values[k]
    for i in range(n):
        k = b"fill" + i.to_bytes(3, "big")
        impl("set-never-raises", b.set, k, (i % 256).to_bytes(1, "big") * 34)
        model[k] = (i % 256).to_bytes(1, "big") * 34
    for k in keys[:6]:  # ... and drops them again after thousands of other writes
        impl("set-never-raises", b.set, k, b"final" * 8)
        model[k] = b"final" * 8
    cm_exit("squash_changes-exit", cm)
    ledger[bytes(t.root_hash)] = dict(model)
    expect("append-only", not db.breaches, lambda: f"database breach during the big batch: {db.breaches[0]}")
    gone = [h for h in snapshot if h not in db]
    expect("no-entry-removed-or-changed", not gone, lambda: f"{len(gone)} entries disappeared, e.g. {gone[0].hex()}")
    for root, m in ledger.items():
        ot = impl("construct", HexaryTrie, db, root)
        for k in list(m)[:: max(1, len(m) // 40)]:
            check_lookup(ot, m, k, False)
    info.label("big-batch")
    info.nontrivial = True
    return info


class World:
    def __init__(self, ntries, db=None, roots=None, models=None):
        self.db = AppendOnlyGuardDB(db or {})
        roots = roots or [BLANK_ROOT] * ntries
        # "non-pruning" is spelled False, None or 0 (any falsy value) / left at its default
        spell = [{}, {"prune": False}, {"prune": None}, {"prune": 0}]
        self.tries = [impl("construct", HexaryTrie, self.db, r, **spell[(i + len(roots)) % 4])
                      for i, r in enumerate(roots)]
        self.models = [dict(m) for m in (models or [{} for _ in range(ntries)])]

    def clone(self):
        return World(len(self.tries), dict(self.db), [bytes(t.root_hash) for t in self.tries],
                     self.models)

    def roots(self):
        return [bytes(t.root_hash) for t in self.tries]


def exec_step(w, step, ledger_roots, ledger, faulty):
    """
    Execute one step. Returns (faulted, new_ledger_entries, facts). With faulty=True an
    InjectedFault is an accepted outcome of any call that writes to the db.
    """
    # With a failing write ANY exception may come out (a KeyError raised by the database is
    # re-interpreted by the library as a missing node, for instance): the claim is about the
    # database and the roots afterwards, not about the exception type.
    allowed = (Exception,) if faulty else ()
    kind = step[0]
    i = step[1] % len(w.tries)
    t, model = w.tries[i], w.models[i]
    new = []
    facts = {"delete": False, "batch_commit": False}
    if kind == "op":
        before = dict(model)
        key, what = apply_simple(t, model, step[2], allowed)
        if what == "faulted":
            return True, new, facts
        facts["delete"] = what in ("delete", "set-empty")
        new.append((bytes(t.root_hash), dict(model)))
    elif kind == "batch":
        inner, end = step[2], step[3]
        if end >= 0:
            end = min(end, len(inner))
        cm = impl("squash_changes", t.squash_changes)
        b = cm_enter("squash_changes", cm)
        bmodel = dict(model)
        aborted = False
        for j, iop in enumerate(inner):
            if end == j:
                aborted = True
                break
            _, what = apply_simple(b, bmodel, iop)
            facts["delete"] |= what in ("delete", "set-empty")
        if end == len(inner):
            aborted = True
        if aborted:
            cm_exit("squash_changes-exit", cm, abort_exception(end))
            facts["delete"] = False
        else:
            status, _ = cm_exit("squash_changes-exit", cm, allowed=allowed)
            if status == "raised":
                return True, new, facts
            facts["batch_commit"] = True
            model.clear()
            model.update(bmodel)
            new.append((bytes(t.root_hash), dict(model)))
    elif kind == "migrate":
        new_db = AppendOnlyGuardDB(dict(w.db))
        new_db.breaches = w.db.breaches
        w.db = new_db
        for tr in w.tries:
            tr.db = new_db
    elif kind == "reopen":
        root = ledger_roots[step[2] % len(ledger_roots)]
        w.tries[i] = impl("construct", HexaryTrie, w.db, root)
        w.models[i] = dict(ledger[root])
    elif kind == "overlap":
        ops_a, ops_b, b_aborts, ops_a2 = step[2], step[3], step[4], step[5]
        cm_a = impl("squash_changes", t.squash_changes)
        a = cm_enter("squash_changes", cm_a)
        amodel = dict(model)
        for iop in ops_a:
            _, what = apply_simple(a, amodel, iop)
            facts["delete"] |= what in ("delete", "set-empty")
        cm_b = impl("squash_changes", t.squash_changes)
        b = cm_enter("squash_changes", cm_b)
        bmodel = dict(model)
        for iop in ops_b:
            apply_simple(b, bmodel, iop)
        if b_aborts:
            cm_exit("squash_changes-exit", cm_b, abort_exception(len(ops_b)))
        else:
            status, _ = cm_exit("squash_changes-exit", cm_b, allowed=allowed)
            if status == "raised":
                cm_exit("squash_changes-exit", cm_a, abort_exception(0))
                return True, new, facts
            new.append((bytes(t.root_hash), dict(bmodel)))
        for iop in ops_a2:
            apply_simple(a, amodel, iop)
        status, _ = cm_exit("squash_changes-exit", cm_a, allowed=allowed)
        if status == "raised":
            # the trie stays at whatever root it had before A's commit (B's or the old one)
            if not b_aborts:
                model.clear()
                model.update(bmodel)
            return True, new, facts
        facts["batch_commit"] = True
        model.clear()
        model.update(amodel)
        new.append((bytes(t.root_hash), dict(model)))
    elif kind == "snapbatch":
        root = ledger_roots[step[2] % len(ledger_roots)]
        parent_root = bytes(t.root_hash)
        cm = impl("at_root", t.at_root, root)
        snap = cm_enter("at_root", cm)
        smodel = dict(ledger[root])
        cm2 = impl("squash_changes", snap.squash_changes)
        b = cm_enter("squash_changes", cm2)
        for iop in step[3]:
            _, what = apply_simple(b, smodel, iop)
            facts["delete"] |= what in ("delete", "set-empty")
        status, _ = cm_exit("squash_changes-exit", cm2, allowed=allowed)
        snap_root = bytes(snap.root_hash)
        cm_exit("at_root-exit", cm)
        expect_eq("snapshot-write-keeps-parent-root", bytes(t.root_hash), parent_root,
                  "parent trie's root after a batch through an at_root snapshot")
        if status == "raised":
            expect_eq("fault-keeps-root", snap_root, root, "snapshot root after a failed batch commit")
            return True, new, facts
        facts["batch_commit"] = True
        new.append((snap_root, smodel))
    elif kind == "snapwrite":
        root = ledger_roots[step[2] % len(ledger_roots)]
        parent_root = bytes(t.root_hash)
        cm = impl("at_root", t.at_root, root)
        snap = cm_enter("at_root", cm)
        smodel = dict(ledger[root])
        key, what = apply_simple(snap, smodel, step[3], allowed)
        snap_root = bytes(snap.root_hash)
        cm_exit("at_root-exit", cm)
        expect_eq("snapshot-write-keeps-parent-root", bytes(t.root_hash), parent_root,
                  "parent trie's root after writing through an at_root snapshot")
        if what == "faulted":
            expect_eq("fault-keeps-root", snap_root, root, "snapshot root after a failed write")
            return True, new, facts
        facts["delete"] = what in ("delete", "set-empty")
        new.append((snap_root, smodel))
    return False, new, facts


def read_root(w, root, model, via_trie, full):
    keys = lookup_keys(model) if full else sorted(model) + [k[:-1] for k in sorted(model)[:3] if k]
    t = impl("construct", HexaryTrie, w.db, root)
    for k in keys:
        check_lookup(t, model, k, False)
    cm = impl("at_root", via_trie.at_root, root)
    snap = cm_enter("at_root", cm)
    for k in keys:
        check_lookup(snap, model, k, False)
    cm_exit("at_root-exit", cm)


def check_world(w, ledger, ledger_roots, snapshot, step_no, full, info):
    expect("append-only", not w.db.breaches,
           lambda: f"database breach after step {step_no}: {w.db.breaches[0]}")
    for h, body in snapshot.items():
        expect("no-entry-removed-or-changed", h in w.db and dict.__getitem__(w.db, h) == body,
               lambda: f"entry {h.hex()} disappeared or changed at step {step_no}")
    if full:
        sample = list(ledger_roots)
    else:
        n = len(ledger_roots)
        sample = {ledger_roots[0], ledger_roots[step_no % n], ledger_roots[(step_no * 7 + 3) % n]}
    for root in sample:
        read_root(w, root, ledger[root], w.tries[0], full)
        info.count("ledger_reads")


def run_case(case):
    info = Info()
    if case.get("big"):
        return _run_big(case, info)
    w = World(case["ntries"])
    ledger = {BLANK_ROOT: {}}
    ledger_roots = [BLANK_ROOT]
    crash_in_batch = 0
    deletes = 0
    steps = case["steps"]
    for no, step in enumerate(steps):
        snapshot = dict(w.db)
        mutating = step[0] in ("op", "batch", "snapwrite", "snapbatch", "overlap")
        if mutating:
            # fault-free execution on a clone: number of writes W and resulting roots
            c = w.clone()
            c.db.writes = 0
            _, _, facts0 = exec_step(c, step, ledger_roots, ledger, False)
            W = c.db.writes
            want_roots = c.roots()
            for n in range(W):
                f = w.clone()
                pre_roots = f.roots()
                f.db.arm(n, no + n)  # the failing write raises one of three exception types
                faulted, _new, _ = exec_step(f, step, ledger_roots, ledger, True)
                f.db.disarm()
                expect("fault-propagates", faulted,
                       f"write #{n} of step {no} was made to fail but the step completed")
                if step[0] == "overlap":
                    # B may have committed before A's commit failed: every trie is at a ledger root
                    for r in f.roots():
                        expect("fault-keeps-root", r in ledger or any(r == x for x, _ in _new),
                               f"after write #{n} of step {no} failed a trie points at an unknown root")
                else:
                    expect_eq("fault-keeps-root", f.roots(), pre_roots,
                              f"trie roots after write #{n} of step {no} failed")
                check_world(f, ledger, ledger_roots, snapshot, no, False, info)
                # retry without fault: same result as the fault-free execution (when the first
                # of two overlapping batches had already committed, the state legitimately moved)
                if f.roots() == pre_roots:
                    faulted, _, _ = exec_step(f, step, ledger_roots, ledger, False)
                    expect_eq("retry-after-fault-converges", f.roots(), want_roots,
                              f"roots after retrying step {no} (write #{n} had failed)")
                info.count("crash_points")
                if facts0["batch_commit"]:
                    crash_in_batch += 1
        _, new, facts = exec_step(w, step, ledger_roots, ledger, False)
        deletes += facts["delete"]
        for root, model in new:
            if root in ledger:
                expect_eq("root-determines-contents", ledger[root], model,
                          "two different mappings under the same root hash")
            else:
                ledger[root] = model
                ledger_roots.append(root)
        info.label(step[0])
        check_world(w, ledger, ledger_roots, snapshot, no, no == len(steps) - 1, info)
    info.label("shared-db-tries", case["ntries"] > 1)
    info.label("crash-in-batch-commit", crash_in_batch > 0)
    info.nontrivial = len(ledger_roots) >= 3 and deletes >= 1 and crash_in_batch >= 1
    return info
