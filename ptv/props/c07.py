"""C07 - missing nodes: operations fail atomically and report the truth."""
import itertools
from collections import defaultdict

from hypothesis import strategies as st

from trie import HexaryTrie
from trie.exceptions import MissingTraversalNode, MissingTrieNode, TraversedPartialPath

from ..faults import LossyDB
from ..hexcommon import keyspecs, literal_keys, resolve_key, resolve_val, valspecs
from ..ref.mpt import RefTrie
from ..util import Info, Raised, as_bytes, as_nibbles, cm_enter, cm_exit, expect, expect_eq, impl, nibbles_of

ID = "C07"
LEVEL = "fault_enumeration"
BUDGET = {"quick": 8000, "thorough": 1200000}
RULE = (
    "case = (trie built from 1-10 items with mostly >=32-byte values so nodes are hashed, "
    "a hidden subset of its hashed nodes (index list / all / all-but-root / only root), "
    "one to four consecutive operations (a failed one may be abandoned after its node was supplied; set/delete also through a fresh squash_changes block) in {get, exists, set, delete, set-empty, traverse(path), "
    "traverse_from(node@prefix, segment), root_node} with index-based keys and paths, "
    "inside or outside squash_changes, prune on/off). Oracle: loop 'call; on "
    "MissingTrieNode/MissingTraversalNode check the report, reveal exactly that node, "
    "retry'. Each report: hash absent from the current db, present in the full db, never "
    "reported twice, root_hash/requested_key correct; lookups/traversals: (prefix, hash) "
    "is exactly a hashed node on the reference path (relative to the start node for "
    "traverse_from); set (and delete of an absent key): hash is a node on the key's path; "
    "effective delete: a path node or a direct child of one (collapse sibling). After "
    "each failed call db (incl. scratch view), root and ref counts are unchanged. The "
    "loop must end within #hidden retries with the complete-database result (model "
    "value / reference root / same node or TraversedPartialPath). Exhaustive part: ALL "
    "subsets of hidden nodes of fixed small tries x a fixed op list. Non-trivial = >=1 "
    "report and a non-blank final result, or a mutation that failed on a node at depth "
    ">=2. Distinct = canonical JSON."
    " Added after the seeded rounds: set (and delete of an absent key) may only report nodes on the key's path; up to four consecutive operations, a failed one may be abandoned after its node was supplied; set/delete also through a fresh squash_changes block; read-change-read scenarios; the database may call back on a miss and re-point the trie for the duration of the failing call; deleting an absent (hidden) node raises KeyError like a real store."
)
LEVEL_TEXT = (
    "Fault enumeration over missing-node subsets: generated subsets plus all 2^n subsets "
    "of small fixed tries; every report is validated against the reference trie's path "
    "and the reveal-and-retry loop must converge to the complete-database result with "
    "state snapshots compared after every failure."
)
LEVEL_NOTE = "A missing node = the mapping raises KeyError for that hash. For pruning tries the reference counts of the builder are handed over, so pruning is exact. Trusted: reference MPT."
TECHNIQUE = "property-based fault injection (hidden-node subsets) with reveal-and-retry loop vs reference path; bounded-exhaustive subsets on fixed tries"

OPS = ["get", "exists", "set", "delete", "sete", "traverse", "traverse_from", "root_node"]


def strategy(tier):
    n_items = 10 if tier == "quick" else 24
    item = st.tuples(
        literal_keys(tier),
        st.one_of(st.sampled_from([32, 33, 40, 40, 64]).map(lambda n: ("sfx", n)),
                  valspecs(tier)),
    )
    hidden = st.one_of(
        st.lists(st.integers(0, 40), max_size=8).map(lambda l: ["idx", l]),
        st.lists(st.integers(0, 40), max_size=8).map(lambda l: ["idx", l]),
        st.just(["all"]), st.just(["all-but-root"]), st.just(["root"]),
    )
    op = st.fixed_dictionaries(
        {
            "kind": st.sampled_from(OPS + ["bset", "bdelete"]),
            "abandon": st.sampled_from([False, False, True]),
            "repoint": st.sampled_from([False, False, False, True]),
            "key": keyspecs(tier, near_weight=9),
            "val": valspecs(tier),
            "cut": st.one_of(st.none(), st.integers(0, 80)),
            "extra": st.one_of(st.none(), st.none(), st.integers(0, 15)),
            "split": st.integers(0, 20),
        }
    )
    def scenario(base, first, change, last, abandon, val):
        """read k (maybe giving up after the node was supplied) - change k - read k again"""
        a = dict(base, kind=first, abandon=abandon)
        b = dict(base, kind=change, abandon=False, val=val)
        c = dict(base, kind=last, abandon=False)
        return [a, b, c]

    scen = st.builds(scenario, op, st.sampled_from(["get", "exists", "traverse", "delete", "set"]),
                     st.sampled_from(["bset", "bdelete", "set", "delete", "sete"]),
                     st.sampled_from(["get", "exists", "traverse"]), st.booleans(), valspecs(tier))
    ops = st.one_of(
        st.builds(lambda a, m: [a] + m, op, st.lists(op, max_size=3)),
        st.builds(lambda a, m: [a] + m, op, st.lists(op, max_size=3)),
        scen,
    )
    return st.builds(
        lambda d, o: dict(d, op=o[0], more=o[1:]),
        st.fixed_dictionaries(
            {
                "prune": st.booleans(),
                "in_batch": st.booleans(),
                "items": st.lists(item, min_size=1, max_size=n_items),
                "hidden": hidden,
            }
        ),
        ops,
    )


FIXED_TRIES = [
    [(b"\x12\x34\x56", ("sfx", 40)), (b"\x12\x34\x57", ("sfx", 40)), (b"\x12\x99", ("sfx", 40))],
    [(b"\x00\x10", ("sfx", 33)), (b"\x00\x11", ("sfx", 33)), (b"\x10\x10", ("sfx", 33)),
     (b"\x10\x11", ("sfx", 33))],
    [(b"", ("sfx", 40)), (b"\x01", ("sfx", 40)), (b"\x01\x02", ("lit", b"s")), (b"\xf0", ("sfx", 40))],
]


def exhaustive(tier):
    limit = 6 if tier == "quick" else 11

    def gen():
        for items in FIXED_TRIES:
            model = {k: resolve_val(v, k) for k, v in items}
            n = len(RefTrie(model).hashed_multiset()[1])
            n = min(n, limit)
            keys = sorted(model)
            opspecs = []
            for kind in OPS:
                for i in range(len(keys)):
                    for how in ("same", "trunc", "flipl"):
                        opspecs.append({"kind": kind, "key": ("near", i, how, 1, 3),
                                        "val": ("lit", b"new" * 12), "cut": None,
                                        "extra": None, "split": i})
            for r in range(n + 1):
                for sub in itertools.combinations(range(n), r):
                    for k, ops in enumerate(opspecs):
                        yield {"prune": (k + r) % 2 == 0, "in_batch": (k // 2 + r) % 2 == 0,
                               "items": items, "hidden": ["idx", list(sub)], "op": ops}

    yield (f"all subsets of (up to {limit}) hashed nodes of 3 fixed tries x 8 op kinds x 3 key relations", gen())


def _snapshot(t, lossy):
    snap = {"root": bytes(t.root_hash), "visible": lossy.visible()}
    if t.is_pruning:
        snap["counts"] = {bytes(h): c for h, c in t.ref_count.items() if c}
    if hasattr(t.db, "wrapped_db"):
        snap["scratch"] = dict(impl("scratch-copy", t.db.copy))
    return snap


def run_case(case):
    info = Info()
    prune = bool(case["prune"])
    # ---- build the complete trie with a pruning builder: db == live nodes exactly ----
    full = {}
    builder = impl("construct", HexaryTrie, full, prune=True)
    model = {}
    for k, vs in case["items"]:
        v = resolve_val(vs, k)
        impl("set-never-raises", builder.set, k, v)
        model[k] = v
    ref = RefTrie(model)
    expect_eq("root-precondition", bytes(builder.root_hash), ref.root_hash, "builder root")
    counts, bodies = ref.hashed_multiset()
    hashed = sorted(bodies)
    expect_eq("db-precondition", sorted(full), hashed, "builder db")
    # where each hash lives in the reference trie
    where = defaultdict(list)
    children_of = defaultdict(set)
    for n in ref.preorder():
        h = ref.root_hash if n is ref.root else (n.ref if n.hashed else None)
        if h is not None:
            where[h].append(n.prefix)
        for c in n.subs():
            if c.hashed:
                children_of[n.prefix].add(c.ref)

    hs = case["hidden"]
    if hs[0] == "all":
        hidden = set(hashed)
    elif hs[0] == "all-but-root":
        hidden = set(hashed) - {ref.root_hash}
    elif hs[0] == "root":
        hidden = {ref.root_hash}
    else:
        hidden = {hashed[i % len(hashed)] for i in hs[1]} if hashed else set()
    info.label(f"hidden:{hs[0]}")
    lossy = LossyDB(full, hidden)
    complete = impl("construct", HexaryTrie, dict(full), ref.root_hash)

    rc = None
    if prune:
        rc = defaultdict(int, {h: c for h, c in builder.ref_count.items() if c})
    outer = impl("construct", HexaryTrie, lossy, ref.root_hash, prune=prune, ref_count=rc)
    cm = None
    t = outer
    if case["in_batch"]:
        cm = impl("squash_changes", outer.squash_changes)
        t = cm_enter("squash_changes", cm)
        info.label("in-batch")

    state = {"model": model, "ref": ref, "where": where, "children_of": children_of,
             "complete": complete, "full": full}

    def refresh(new_model):
        """After a successful mutation: the reference, the complete trie and the node universe."""
        nref = RefTrie(new_model)
        nwhere, nchildren = defaultdict(list), defaultdict(set)
        for n in nref.preorder():
            h = nref.root_hash if n is nref.root else (n.ref if n.hashed else None)
            if h is not None:
                nwhere[h].append(n.prefix)
            for c in n.subs():
                if c.hashed:
                    nchildren[n.prefix].add(c.ref)
        universe = dict(state["full"])
        universe.update(dict.items(lossy))
        if cm is not None:
            universe.update(impl("scratch-copy", t.db.copy))
        _, nbodies = nref.hashed_multiset()
        for h, b in nbodies.items():
            expect("mutation-stores-every-node", universe.get(h) == b,
                   lambda: f"node {h.hex()} of the new root was not written")
        state.update(model=new_model, ref=nref, where=nwhere, children_of=nchildren, full=universe,
                     complete=impl("construct", HexaryTrie, dict(universe), nref.root_hash))

    def do_op(op):
        model, ref, where, children_of = state["model"], state["ref"], state["where"], state["children_of"]
        complete, full = state["complete"], state["full"]
        n_hidden = len(lossy.hidden)
        kind = op["kind"]
        info.label("op:" + kind)
        via_batch = False
        if kind in ("bset", "bdelete"):
            # the same mutation through a fresh squash_changes block (nesting is out of scope)
            via_batch = cm is None
            kind = "set" if kind == "bset" else "delete"
        key = resolve_key(op["key"], sorted(model))
        kn = nibbles_of(key)
        path = kn
        if op["cut"] is not None:
            path = path[: op["cut"] % (len(path) + 1)]
        if op["extra"] is not None:
            path = path + (op["extra"],)

        # ---- set up the call and its expected complete-database result -----------------
        start_prefix = ()
        if kind in ("get", "exists"):
            fn = (lambda: t.get(key)) if kind == "get" else (lambda: t.exists(key))
            want = model.get(key, b"") if kind == "get" else (key in model)
            target_nibbles = kn
        elif kind in ("set", "delete", "sete"):
            new_model = dict(model)
            if kind == "set":
                val = resolve_val(op["val"], key)
                new_model[key] = val
                fn = lambda: t.set(key, val)  # noqa: E731
            elif kind == "delete":
                new_model.pop(key, None)
                fn = lambda: t.delete(key)  # noqa: E731
            if via_batch:
                info.label("mutation-through-fresh-batch")

                def fn():  # noqa: F811
                    with t.squash_changes() as b:
                        if kind == "set":
                            b.set(key, val)
                        else:
                            b.delete(key)
            elif kind in ("set", "delete"):
                pass
            else:
                new_model.pop(key, None)
                fn = lambda: t.set(key, b"")  # noqa: E731
            want = RefTrie(new_model).root_hash
            target_nibbles = kn
        elif kind == "traverse":
            fn = lambda: t.traverse(path)  # noqa: E731
            want = impl("traverse-complete", complete.traverse, path, allowed=(TraversedPartialPath,))
            target_nibbles = path
        elif kind == "traverse_from":
            # start from a reference node whose prefix is a prefix of `path`
            starts = [n.prefix for n in ref.path_nodes(path) if path[: len(n.prefix)] == n.prefix]
            starts = [p for p in starts if len(p) <= len(path)] or [()]
            start_prefix = starts[op["split"] % len(starts)]
            start_node = impl("traverse-complete", complete.traverse, start_prefix,
                              allowed=(TraversedPartialPath,))
            if isinstance(start_node, Raised):
                start_prefix = ()
                start_node = impl("traverse-complete", complete.traverse, ())
            segment = path[len(start_prefix):]
            fn = lambda: t.traverse_from(start_node, segment)  # noqa: E731
            want = impl("traverse-complete", complete.traverse_from, start_node, segment,
                        allowed=(TraversedPartialPath,))
            target_nibbles = path
        else:
            fn = lambda: t.root_node  # noqa: E731
            want = impl("traverse-complete", lambda: complete.root_node)
            target_nibbles = ()

        on_path = ref.hashed_on_path(target_nibbles)
        path_prefixes = [n.prefix for n in ref.path_nodes(target_nibbles)]
        reported = []
        deep_mutation_failure = False
        result = None
        for attempt in range(n_hidden + 2):
            call_root = bytes(t.root_hash)
            if op.get("repoint") and kind in ("get", "exists") and attempt == 0:
                # on the miss the database calls back and the callback points the trie elsewhere
                # for a moment: the report must still name the root the call was made against
                def on_miss(_key, _t=t, _root=call_root):
                    _t.root_hash = b"\x11" * 32
                lossy.on_miss = on_miss
                info.label("root-repointed-during-failing-call")
            before = _snapshot(t, lossy)
            r = impl("only-missing-node-errors", fn,
                     allowed=(MissingTrieNode, MissingTraversalNode, TraversedPartialPath))
            lossy.on_miss = None  # the callback is armed for this one call only
            if bytes(t.root_hash) != call_root and kind in ("get", "exists"):
                t.root_hash = call_root  # undo the callback's re-pointing
            if not (isinstance(r, Raised) and isinstance(r.exc, (MissingTrieNode, MissingTraversalNode))):
                result = r
                break
            exc = r.exc
            if bytes(t.root_hash) != call_root:
                t.root_hash = call_root  # undo the callback's re-pointing
            lossy.on_miss = None
            h = as_bytes("report-names-a-hash", exc.missing_node_hash, "missing_node_hash of the report")
            # ---- the report tells the truth ------------------------------------------
            expect("reported-node-really-absent", h in lossy.hidden,
                   lambda: f"{kind}: reported {h.hex()} which is not absent from the database")
            expect("reported-node-exists-in-full-db", h in full, f"{kind}: reported unknown hash {h.hex()}")
            expect("each-node-asked-once", h not in reported, f"{kind}: node {h.hex()} reported twice")
            if kind in ("get", "exists", "set", "delete", "sete"):
                expect("report-type", isinstance(exc, MissingTrieNode),
                       f"{kind} raised {type(exc).__name__} instead of MissingTrieNode")
                expect_eq("report-root-hash", as_bytes("report-root-hash", exc.root_hash, "root_hash of the report"), call_root, "root_hash of the report")
                expect_eq("report-requested-key", as_bytes("report-requested-key", exc.requested_key, "requested_key of the report"), key, "requested_key of the report")
            else:
                expect("report-type", isinstance(exc, MissingTraversalNode),
                       f"{kind} raised {type(exc).__name__} instead of MissingTraversalNode")
            if kind in ("get", "exists"):
                pfx = None if exc.prefix is None else as_nibbles("report-on-path-with-exact-prefix", exc.prefix, "prefix of the report")
                expect("report-on-path-with-exact-prefix", (pfx, h) in on_path,
                       lambda: f"{kind}({key!r}) reported node {h.hex()} at prefix {pfx}; hashed "
                               f"nodes on the path: {[(p, x.hex()[:8]) for p, x in on_path]}")
            elif kind in ("traverse", "traverse_from", "root_node"):
                rel = as_nibbles("report-on-path-with-exact-prefix", exc.nibbles_traversed, "nibbles_traversed of the report")
                absolute = tuple(start_prefix) + rel
                expect("report-on-path-with-exact-prefix", (absolute, h) in on_path
                       and (kind != "traverse_from" or len(absolute) > len(start_prefix)),
                       lambda: f"{kind}({path}) from {start_prefix} reported {h.hex()} after "
                               f"nibbles {rel}; hashed nodes on the path: "
                               f"{[(p, x.hex()[:8]) for p, x in on_path]}")
            else:
                on_key_path = any(p in path_prefixes for p in where[h])
                # A delete that really removes a key may additionally need the one remaining
                # sibling below a path node (to collapse the branch); nothing else is needed.
                sibling_ok = kind in ("delete", "sete") and key in model and any(
                    h in children_of[p] for p in path_prefixes)
                expect("mutation-report-on-path-or-sibling", on_key_path or sibling_ok,
                       lambda: f"{kind}({key!r}) reported {h.hex()} at {where[h]} which does not lie on "
                               f"the key's path {path_prefixes}"
                               + ("" if kind == "set" or key not in model else " nor directly below it"))
                if exc.prefix is not None:
                    pfx = as_nibbles("mutation-report-prefix", exc.prefix, "prefix of the report")
                    expect("mutation-report-prefix", pfx in where[h],
                           f"{kind}: prefix {pfx} does not lead to the reported node")
                if min(len(p) for p in where[h]) >= 2:
                    deep_mutation_failure = True
            # ---- the failed call changed nothing ----------------------------------------
            after = _snapshot(t, lossy)
            for part in before:
                expect_eq("failed-call-changes-nothing", after[part], before[part],
                          f"{part} after a failed {kind}")
            reported.append(h)
            lossy.reveal(h)
            info.count("reports")
            if op.get("abandon"):
                # the caller gives up on this call (the node stays supplied) and moves on
                info.label("abandoned-after-failure")
                return len(reported), False, deep_mutation_failure, "abandoned", None
        else:
            expect("retry-converges", False,
                   f"{kind}: still failing after revealing {len(reported)} reported nodes")

        # ---- the complete-database result -------------------------------------------------
        if kind in ("get", "exists"):
            expect_eq("converges-to-correct-result", result, want, f"{kind}({key!r}) after reveals")
            nonblank = bool(result)
        elif kind in ("set", "delete", "sete"):
            expect_eq("converges-to-correct-result", bytes(t.root_hash), want,
                      f"root after {kind}({key!r}) succeeded")
            nonblank = True
        else:
            if isinstance(want, Raised):
                expect("converges-to-correct-result", isinstance(result, Raised)
                       and isinstance(result.exc, TraversedPartialPath)
                       and result.exc.args == want.exc.args,
                       lambda: f"{kind}: expected {want!r}, got {result!r}")
                nonblank = True
            else:
                expect_eq("converges-to-correct-result", result, want, f"{kind} result after reveals")
                nonblank = bool(result.raw)
        if kind in ("set", "delete", "sete"):
            refresh(new_model)
        return len(reported), nonblank, deep_mutation_failure, kind, want

    total_reports, any_nonblank, any_deep = 0, False, False
    last_mutation_root = None
    for op in [case["op"]] + list(case.get("more", [])):
        nrep, nb, deep, kind, want = do_op(op)
        total_reports += nrep
        any_nonblank |= nb and nrep > 0
        any_deep |= deep
        if kind in ("set", "delete", "sete"):
            last_mutation_root = want
        info.label("multi-op", op is not case["op"])
    if cm is not None:
        # leaving the batch may need the (hidden) root body of the new root: not part of
        # the claim, so reveal everything first
        for h in list(lossy.hidden):
            lossy.reveal(h)
        cm_exit("squash_changes-exit", cm)
        if last_mutation_root is not None:
            expect_eq("converges-to-correct-result", bytes(outer.root_hash), last_mutation_root,
                      "outer root after the batch")
    info.label("reports>=1", total_reports >= 1)
    info.label("reports>=3", total_reports >= 3)
    info.label("deep-mutation-failure", any_deep)
    info.nontrivial = any_nonblank or any_deep
    return info
