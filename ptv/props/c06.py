"""C06 - pruning is exact: db holds precisely the live nodes, ref counts are true."""
import itertools

from hypothesis import strategies as st

from ..hexcommon import histories
from ..hexrun import run_history
from ..util import Info
from .c01 import UNIVERSE

ID = "C06"
LEVEL = "exploration"
BUDGET = {"quick": 6000, "thorough": 250000}
RULE = (
    "case = history on a pruning HexaryTrie over an empty dict: direct ops, no-op "
    "rewrites, committed AND aborted squash_changes batches (abort point drawn), values "
    "suffix-determined with high weight (identical sub-tries => shared hashed nodes) and "
    "around the embedding threshold. Oracle after every outer-level step: set(db) == "
    "hashed nodes reachable in the reference MPT of the model (none missing, none left "
    "over, bodies equal), ref_count (zero entries dropped) == reference multiset of "
    "references == regenerate_ref_count(). Non-trivial = some node had reference count "
    ">=2 at some step, or a delete collapsed a branch (normalisation/merge paths with "
    "their own prune calls). Distinct = canonical JSON."
    ' Added after the seeded rounds: ref_count[h] is indexed for every live and every previously seen (dead) hash; sparse-lookup mode; twin / edge-leaf fragments; a fixed deep-chain case on a pruning trie.'
)
LEVEL_TEXT = (
    "Exploration by model-based property testing: the database and the reported "
    "reference counts are compared for exact equality with the hashed-node multiset of "
    "an independent reference trie after every outer-level operation, including "
    "aborted and committed batches; bounded-exhaustive enumeration over a 6-key universe."
)
LEVEL_NOTE = "Exactness is asserted at the outer level only (a whole batch is one operation of the pruning trie). Trusted: reference MPT (KAT-anchored), keccak."
TECHNIQUE = "model-based property testing: db/ref-count vs reference hashed-node multiset after every step + bounded-exhaustive enumeration"


def strategy(tier):
    return st.fixed_dictionaries(
        {
            "prune": st.just(True),
            "sparse": st.sampled_from([False, False, True]),
            "ops": histories(tier, batches=True, aborts=True, sfx_weight=5, near_weight=3, mirror_weight=4,
                             looks=1),
        }
    )


def exhaustive(tier):
    n = 3 if tier == "quick" else 4
    acts = []
    for k in UNIVERSE:
        acts.append(("set", ("lit", k), ("lit", b"s"), 0))
        acts.append(("set", ("lit", k), ("lit", b"L" * 33), 1))
        acts.append(("del", ("lit", k), 0))

    def gen():
        for length in range(1, n + 1):
            for seq in itertools.product(acts, repeat=length):
                yield {"prune": True, "ops": list(seq)}
        # the same sequences inside one committed / aborted batch (length <= n-1)
        for length in range(1, n):
            for seq in itertools.product(acts, repeat=length):
                for end in (-1, length):
                    yield {"prune": True, "ops": [acts[1], ("batch", list(seq), end), acts[5]]}

    yield ("deep chain of nested prefix keys on a pruning trie", iter([{"deep": 1}]))
    yield (f"all direct histories of length<={n} and all single batches of length<={n-1} (committed/aborted) over the 6-key universe", gen())


def _run_deep(case, info):
    from ..deepchain import build_chain
    from ..hexrun import check_prune
    from ..ref.mpt import RefTrie
    from ..util import expect_eq, impl

    t, model, keys = build_chain(fan=True, prune=True)
    check_prune(t, t.db, model, info, RefTrie(model))
    for k in reversed(keys[len(keys) // 3:]):
        impl("delete-never-raises", t.delete, k)
        del model[k]
    check_prune(t, t.db, model, info, RefTrie(model))
    for k in list(model):
        impl("delete-never-raises", t.delete, k)
    expect_eq("no-garbage-left", dict(t.db), {}, "database after deleting every key of the deep chain")
    info.label("deep-chain")
    info.nontrivial = len(keys) >= 100
    return info


def run_case(case):
    info = Info()
    if "deep" in case:
        return _run_deep(case, info)
    facts = run_history(case, {"prune", "map"}, info)
    info.label("batch-mixed", facts["batches"] > 0)
    info.nontrivial = facts["shared"] > 0 or facts["collapse"] > 0
    return info
