"""C17 - ScratchDB buffers a batch and commits it atomically or not at all."""
import collections
import itertools

from hypothesis import strategies as st

from trie.utils.db import ScratchDB

from ..util import Abort, Info, abort_exception, cm_enter, cm_exit, expect, expect_eq, impl

ID = "C17"
ATHERIS = True  # thorough tier: coverage-guided second engine over the same strategy/run_case
LEVEL = "fault_enumeration"
BUDGET = {"quick": 24000, "thorough": 800000}
RULE = (
    "case = (pre-existing dict over a 4-key universe, batch op list of set/del/get/"
    "contains/copy with <=12 ops, do_deletes); every case is executed once per exit "
    "point: normal exit and an exception raised before op i for EVERY i in 0..len "
    "(enumerated, counted in counters.exits), the exception being an Exception subclass, "
    "a bare BaseException subclass or KeyboardInterrupt. Oracle: last-action model per key. "
    "Non-trivial = some key has set-after-delete or delete-after-set AND a key is "
    "read (get/contains) after its latest action was a delete; distinct = distinct "
    "canonical JSON of the case."
    ' Added after the seeded rounds: the block is left by Exception / BaseException / KeyboardInterrupt / a falsy exception / a KeyError and may run inside an except handler; the wrapped db may be a defaultdict; fixed big batches (5 sizes up to 5000 keys x 4 write/delete patterns x do_deletes).'
)
ASSUMPTIONS = ["copy() is not asserted for keys whose latest buffered action is a delete (statement is silent)"]

UNIVERSE = [b"a", b"b", b"c", b"d"]
VALUES = [b"", b"x", b"y", b"zz"]


def strategy(tier):
    key = st.integers(0, 3)
    val = st.sampled_from(VALUES)
    op = st.one_of(
        st.tuples(st.just("set"), key, val),
        st.tuples(st.just("set"), key, val),
        st.tuples(st.just("del"), key, st.just(b"")),
        st.tuples(st.just("del"), key, st.just(b"")),
        st.tuples(st.just("get"), key, st.just(b"")),
        st.tuples(st.just("in"), key, st.just(b"")),
        st.tuples(st.just("copy"), st.just(0), st.just(b"")),
    )
    return st.fixed_dictionaries(
        {
            "base": st.lists(st.tuples(key, val), max_size=4, unique_by=lambda kv: kv[0]),
            "ops": st.lists(op, max_size=12),
            "do_deletes": st.booleans(),
            "exc": st.integers(0, 4),
            "in_handler": st.booleans(),
            "wrapped_kind": st.sampled_from([0, 0, 1]),
        }
    )


def exhaustive(tier):
    n = 3 if tier == "quick" else 5
    ops = (
        [("set", k, v) for k in (0, 1) for v in (b"x", b"y")]
        + [("del", k, b"") for k in (0, 1)]
        + [("get", k, b"") for k in (0, 1)]
        + [("in", k, b"") for k in (0, 1)]
        + [("copy", 0, b"")]
    )
    bases = [[], [(0, b"p")], [(1, b"q")], [(0, b"p"), (1, b"q")]]

    def gen():
        for length in range(0, n + 1):
            for seq in itertools.product(ops, repeat=length):
                for base in bases:
                    for dd in (False, True):
                        yield {"base": base, "ops": list(seq), "do_deletes": dd,
                               "exc": (length + len(base)) % 5,
                               "in_handler": (length + len(base) + int(dd)) % 2 == 1}

    yield (f"all op sequences of length<={n} over 2 keys x 4 pre-existing dbs x do_deletes", gen())

    def big():
        # thousands of distinct keys in one batch (compact form, expanded in run_case)
        for size in (1024, 1500, 2048, 4097, 5000):
            for pattern in ("dels-then-sets", "sets-then-dels", "interleaved", "del-set-del"):
                for dd in (False, True):
                    yield {"big": [size, pattern], "do_deletes": dd, "exc": 0, "in_handler": False,
                           "base": [], "ops": []}

    yield ("big batches: 5 sizes up to 5000 keys x 4 write/delete patterns x do_deletes", big())


def _run_big(case, info):
    """One batch over thousands of keys, normal exit and one abort; last-action model."""
    size, pattern = case["big"]
    dd = case["do_deletes"]
    keys = [b"k%05d" % i for i in range(size + 80)]
    base = {k: b"old" for k in keys[::3]}
    half = size
    if pattern == "dels-then-sets":
        ops = [("del", k) for k in keys[:half]] + [("set", k) for k in keys[half:]]
    elif pattern == "sets-then-dels":
        ops = [("set", k) for k in keys[:80]] + [("del", k) for k in keys[80:]]
    elif pattern == "interleaved":
        ops = [("del" if i % 2 else "set", k) for i, k in enumerate(keys)]
    else:
        ops = [("del", k) for k in keys] + [("set", k) for k in keys[::5]] + [("del", k) for k in keys[::10]]
    for abort in (False, True):
        wrapped = dict(base)
        s = impl("construct", ScratchDB, wrapped)
        cm = impl("batch-open", s.batch_commit, do_deletes=dd)
        cm_enter("batch-open", cm)
        model = {}
        for kind, k in ops:
            if kind == "set":
                impl("buffered-write", s.__setitem__, k, b"new" + k)
                model[k] = ("set", b"new" + k)
            else:
                impl("buffered-delete", s.__delitem__, k)
                model[k] = ("del",)
        expect_eq("wrapped-untouched-during-batch", wrapped, base, "wrapped db during a big batch")
        if abort:
            cm_exit("batch-exit", cm, Abort("injected"))
            final = base
        else:
            cm_exit("batch-exit", cm)
            final = dict(base)
            for k, act in model.items():
                if act[0] == "set":
                    final[k] = act[1]
                elif dd:
                    final.pop(k, None)
        missing = [k for k in final if k not in wrapped]
        extra = [k for k in wrapped if k not in final]
        expect("commit-applies-buffer" if not abort else "abort-leaves-wrapped-unchanged",
               wrapped == final,
               lambda: f"big batch ({size} keys, {pattern}, do_deletes={dd}, abort={abort}): "
                       f"{len(missing)} entries missing e.g. {missing[:1]}, {len(extra)} unexpected e.g. {extra[:1]}")
        expect_eq("buffer-empty-after", impl("buffer-empty-after", s.copy), final, "copy() after the big batch")
        info.count("exits")
    info.label("big-batch")
    info.nontrivial = True
    return info


def run_case(case):
    info = Info()
    if case.get("big"):
        return _run_big(case, info)
    base = {UNIVERSE[k]: v for k, v in case["base"]}
    ops = [(kind, UNIVERSE[k], v) for kind, k, v in case["ops"]]
    dd = case["do_deletes"]

    # classification from the op list
    last = {}
    mixed = read_after_del = False
    for kind, k, _ in ops:
        if kind == "set":
            mixed |= last.get(k) == "del"
            last[k] = "set"
        elif kind == "del":
            mixed |= last.get(k) == "set"
            last[k] = "del"
        elif kind in ("get", "in"):
            read_after_del |= last.get(k) == "del"
    info.label("set-after-del/del-after-set", mixed)
    info.label("read-after-delete", read_after_del)
    info.label("do_deletes", dd)
    info.label("copy-in-batch", any(o[0] == "copy" for o in ops))
    info.nontrivial = mixed and read_after_del

    exc_kind = case.get("exc", 0)
    info.label(["exit-by-Exception", "exit-by-BaseException", "exit-by-KeyboardInterrupt", "exit-by-falsy-exception", "exit-by-KeyError"][exc_kind % 5])
    if case.get("wrapped_kind"):
        # the wrapped db is a defaultdict: item access to an absent key would insert, so the
        # reads of this case are done with `in` (which must never insert)
        ops = [(("in" if kind == "get" else kind), k, v) for kind, k, v in ops]
        info.label("wrapped-is-defaultdict")
    in_handler = bool(case.get("in_handler"))
    info.label("batch-inside-except-handler", in_handler)
    for exit_at in [None] + list(range(len(ops) + 1)):
        if in_handler:
            # the whole batch runs while the caller is handling an unrelated exception
            try:
                raise LookupError("unrelated exception being handled by the caller")
            except LookupError:
                _run_once(base, ops, dd, exit_at, exc_kind, case.get("wrapped_kind", 0))
        else:
            _run_once(base, ops, dd, exit_at, exc_kind, case.get("wrapped_kind", 0))
        info.count("exits")
    return info


class _BaseAbort(BaseException):
    """Leaves the block by an exception that is not an Exception subclass."""


def _make_exc(kind):
    return abort_exception(kind)


class _CountingDict(dict):
    """A dict that counts the mutating calls made on it (what a commit does to the wrapped db)."""

    mutations = 0

    def __setitem__(self, k, v):
        self.mutations += 1
        dict.__setitem__(self, k, v)

    def __delitem__(self, k):
        self.mutations += 1
        dict.__delitem__(self, k)

    def pop(self, *a):
        self.mutations += 1
        return dict.pop(self, *a)


class _CountingDefaultDict(collections.defaultdict):
    mutations = 0

    def __setitem__(self, k, v):
        self.mutations += 1
        collections.defaultdict.__setitem__(self, k, v)

    def __delitem__(self, k):
        self.mutations += 1
        collections.defaultdict.__delitem__(self, k)

    def pop(self, *a):
        self.mutations += 1
        return collections.defaultdict.pop(self, *a)


def _run_once(base, ops, dd, exit_at, exc_kind=0, wrapped_kind=0):
    wrapped = _CountingDict(base)
    if wrapped_kind:
        wrapped = _CountingDefaultDict(lambda: b"inserted-by-default", base)
    s = impl("construct", ScratchDB, wrapped)
    cm = impl("batch-open", s.batch_commit, do_deletes=dd)
    cm_enter("batch-open", cm)
    model = {}  # key -> ('set', v) | ('del',)
    aborted = False
    for i, (kind, k, v) in enumerate(ops):
        if exit_at == i:
            aborted = True
            break
        if kind == "set":
            impl("buffered-write", s.__setitem__, k, v)
            model[k] = ("set", v)
        elif kind == "del":
            impl("buffered-delete", s.__delitem__, k)
            model[k] = ("del",)
        elif kind == "get":
            got = impl("read-in-batch", s.__getitem__, k, allowed=(KeyError,))
            if k in model and model[k][0] == "set":
                expect_eq("read-sees-latest-write", got, model[k][1], f"read of {k!r}")
            elif k in base:
                expect_eq("read-through", got, base[k], f"read-through of {k!r}")
            else:
                expect("read-through", not isinstance(got, (bytes, type(None))),
                       f"read of absent key {k!r} returned {got!r} instead of raising KeyError")
        elif kind == "in":
            got = impl("contains-in-batch", s.__contains__, k)
            want = True if (k in model and model[k][0] == "set") else (k in base)
            expect_eq("contains-in-batch", got, want, f"{k!r} in scratch")
        elif kind == "copy":
            got = impl("copy-in-batch", s.copy)
            expect("copy-in-batch", isinstance(got, dict), "copy() must return a dict")
            for key in UNIVERSE:
                act = model.get(key)
                if act is not None and act[0] == "set":
                    expect("copy-in-batch", key in got and got[key] == act[1],
                           f"copy() does not show the buffered write of {key!r}: {got!r}")
                elif act is None:
                    if key in base:
                        expect("copy-in-batch", key in got and got[key] == base[key],
                               f"copy() lost untouched key {key!r}: {got!r}")
                    else:
                        expect("copy-in-batch", key not in got,
                               f"copy() invented key {key!r}: {got!r}")
        expect_eq("wrapped-untouched-during-batch", dict(wrapped), base,
                  f"wrapped db after op {i} {kind}")
    if exit_at == len(ops):
        aborted = True
    if aborted:
        cm_exit("batch-exit", cm, _make_exc(exc_kind))
        expect_eq("abort-leaves-wrapped-unchanged", dict(wrapped), base,
                  f"wrapped db after exceptional exit before op {exit_at}")
        final = base
    else:
        cm_exit("batch-exit", cm)
        final = dict(base)
        for k, act in model.items():
            if act[0] == "set":
                final[k] = act[1]
            elif dd:
                final.pop(k, None)
        expect_eq("commit-applies-buffer", dict(wrapped), final,
                  f"wrapped db after normal exit (do_deletes={dd})")
    # buffer empty afterwards: the scratch view is exactly the wrapped db again
    for key in UNIVERSE:
        got = impl("buffer-empty-after", s.__contains__, key)
        expect_eq("buffer-empty-after", got, key in final, f"{key!r} in scratch after the batch")
        if key in final:
            got = impl("buffer-empty-after", s.__getitem__, key)
            expect_eq("buffer-empty-after", got, final[key], f"scratch[{key!r}] after the batch")
    expect_eq("buffer-empty-after", impl("buffer-empty-after", s.copy), final, "copy() after the batch")
    # ... and nothing is left to apply: a second, empty batch must not touch the wrapped db
    # (observed through the calls it receives, so no internal attribute is looked at)
    before = wrapped.mutations
    cm2 = impl("batch-open", s.batch_commit, do_deletes=True)
    cm_enter("batch-open", cm2)
    cm_exit("batch-exit", cm2)
    expect_eq("buffer-empty-after", wrapped.mutations - before, 0,
              "writes / deletes reaching the wrapped db from an empty batch that follows")
    expect_eq("buffer-empty-after", dict(wrapped), final, "wrapped db after an empty batch that follows")

LEVEL_TEXT = (
    "Fault enumeration: every generated batch (and every op sequence of length <=3/<=5 "
    "over 2 keys, enumerated completely) is executed once per exit point - normal and "
    "an exception before every op - against a last-action model; the wrapped dict is "
    "compared after every single op. Right level because the property quantifies over "
    "crash points of a tiny state machine that can be enumerated."
)
LEVEL_NOTE = "Trusted: CPython dict semantics, Hypothesis. Exception exit is modelled by throwing into the context manager; copy() unasserted for deleted keys."
TECHNIQUE = "property-based testing (Hypothesis op-lists vs last-action model) + bounded-exhaustive enumeration of op sequences x every exit point"
