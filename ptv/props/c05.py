"""C05 - squash_changes is an all-or-nothing batch."""
from hypothesis import strategies as st

from trie import HexaryTrie

from ..faults import FAULTS, FaultDB, WriteThroughDB
from ..hexcommon import histories, mirror_fragments, simple_ops, twin_fragments
from ..hexrun import apply_simple, check_prune, norm_counts, play, run_history
from ..ref.mpt import RefTrie
from ..util import Abort, Info, abort_exception, cm_enter, cm_exit, expect, expect_eq, impl

ID = "C05"
LEVEL = "fault_enumeration"
BUDGET = {"quick": 900, "thorough": 60000}
RULE = (
    "case = (prune flag, prior history incl. earlier batches, batch op list, follow-up "
    "history). Each case is executed once per EXIT of the batch, all enumerated: normal "
    "exit; an exception raised before op i for every i in 0..len; and, for non-pruning "
    "tries, a failing database write at every commit write n in 0..W-1 (W measured on "
    "the fault-free run) - counters.exits / commit_faults. Normal exit: outer root == "
    "reference MPT root of the resulting mapping, every reference hashed node stored, "
    "db_before preserved unless pruning, db_after - db_before is a subset of the new "
    "root's hashed nodes (no intermediate leaks), pruning tries additionally db/ref-count "
    "exactness. Exceptional exit / failed commit: root, every previously stored entry "
    "and the normalised reference counts equal the pre-block snapshot; then the "
    "follow-up history must keep agreeing with dict model + reference root (+ exactness "
    "when pruning). Non-trivial = batch has >=2 effective ops on keys that existed "
    "before the batch and an abort point strictly inside it. Distinct = canonical JSON."
    ' Added after the seeded rounds: the block is left by Exception / BaseException / KeyboardInterrupt / a falsy exception / a KeyError, and may run inside an except handler; failing commit writes raise one of three exception types; batches also build and destroy identical sub-tries (mirror / twin fragments); some cases run on a write-through dict subclass; fixed very large batches (1500 / 4200 / ... sets); the follow-up history may use sparse look-ups.'
)
def exhaustive(tier):
    sizes = (1500, 4200) if tier == "quick" else (1500, 4200, 9000, 20000)

    def gen():
        for n in sizes:
            for prune in (0, 1):
                yield {"big": [n, prune]}

    yield (f"very large batches ({', '.join(map(str, sizes))} sets in one squash_changes block) x prune", gen())


LEVEL_TEXT = (
    "Fault enumeration: for each generated (prior history, batch) every exit point of "
    "the block and every failing commit write is executed, with snapshot comparison "
    "and a model-checked continuation afterwards (which is what exposes corrupted "
    "reference counts)."
)
LEVEL_NOTE = "Crash points are exceptions raised in the block and failing __setitem__ of the mapping passed as db (non-pruning tries, as the statement says). After an abort only 'previously stored entries unchanged' is asserted in C05; garbage-freedom of pruning tries is asserted via the exactness oracle."
TECHNIQUE = "property-based testing + exhaustive enumeration of batch exit points and commit write faults per case; snapshot and model/reference comparison"


def strategy(tier):
    big = tier != "quick"
    return st.fixed_dictionaries(
        {
            "prune": st.booleans(),
            "prior": histories(tier, max_ops=25 if big else 10, batches=True, aborts=True,
                               mirror_weight=2),
            # the batch itself also builds identical sub-tries (shared nodes) and takes them apart
            "batch": st.lists(st.one_of([simple_ops(tier, near_weight=4)] * 6 + [mirror_fragments(), twin_fragments()]),
                              min_size=1, max_size=16 if big else 8).map(
                                  lambda fr: [o for f in fr for o in (f if isinstance(f, list) else [f])][:24]),
            "rest": histories(tier, max_ops=12 if big else 6, batches=True, aborts=True,
                              near_weight=4, looks=1),
            "exc": st.integers(0, 4),
            "db_kind": st.sampled_from([0, 0, 0, 1]),
            "in_handler": st.booleans(),
            "sparse": st.booleans(),
        }
    )


class _BaseAbort(BaseException):
    """Leaves the block by an exception that is not an Exception subclass."""


def _run_exit_inner(case, exit_kind, exit_arg, info):
    prune = bool(case["prune"])
    # mostly the fault-injecting dict; sometimes a write-through dict subclass whose item
    # methods are the only way to the real store (no commit faults are injected there)
    wt = bool(case.get("db_kind")) and exit_kind != "fail"
    db = WriteThroughDB() if wt else FaultDB()
    trie = impl("construct", HexaryTrie, db, prune=prune)
    model = {}
    play(trie, model, case["prior"])
    pre_root = bytes(trie.root_hash)
    pre_db = dict(db)
    pre_counts = norm_counts(trie) if prune else None

    cm = impl("squash_changes", trie.squash_changes)
    b = cm_enter("squash_changes", cm)
    bmodel = dict(model)
    effective_on_existing = 0
    n_ops = len(case["batch"])
    aborted = False
    for i, op in enumerate(case["batch"]):
        if exit_kind == "abort" and exit_arg == i:
            aborted = True
            break
        before = dict(bmodel)
        key, what = apply_simple(b, bmodel, op)
        if before != bmodel and key in model:
            effective_on_existing += 1
    if exit_kind == "abort" and exit_arg == n_ops:
        aborted = True

    measured_w = None
    if aborted:
        cm_exit("squash_changes-exit", cm, abort_exception(case.get("exc", 0)))
        outcome = "aborted"
    elif exit_kind == "fail":
        db.arm(exit_arg, case.get("exc", 0))  # the write fails with one of three exception types
        status, exc = cm_exit("squash_changes-exit", cm, allowed=FAULTS)
        db.disarm()
        if status != "raised":
            # fewer writes than on the measured run would be non-determinism
            expect("commit-write-fault-propagates", False,
                   f"commit write #{exit_arg} was made to fail but the block completed")
        outcome = "commit-failed"
    else:
        if not wt:
            db.writes = 0
        cm_exit("squash_changes-exit", cm)
        measured_w = 0 if wt else db.writes
        outcome = "committed"

    if outcome == "committed":
        model = bmodel
        ref = RefTrie(model)
        expect_eq("commit-adopts-canonical-root", bytes(trie.root_hash), ref.root_hash,
                  "outer root after the block")
        counts, bodies = ref.hashed_multiset()
        for h, body in bodies.items():
            got = db.get(h) if h in db else None
            expect("commit-stores-every-node", got == body,
                   lambda: f"node {h.hex()} needed for the new root is missing or wrong in the db")
        if not prune:
            for h, body in pre_db.items():
                expect("commit-removes-nothing", h in db and db[h] == body,
                       lambda: f"entry {h.hex()} that existed before the block was removed/changed")
            leaked = [h for h in db if h not in pre_db and h not in bodies]
            expect("commit-adds-no-intermediate-node", not leaked,
                   lambda: f"{len(leaked)} node(s) that only served intermediate states were "
                           f"added, e.g. {leaked[0].hex()}")
        else:
            check_prune(trie, db, model, info, ref)
    else:
        expect_eq(outcome + "-keeps-root", bytes(trie.root_hash), pre_root, "outer root")
        for h, body in pre_db.items():
            expect(outcome + "-keeps-contents", h in db and db[h] == body,
                   lambda: f"entry {h.hex()} stored before the block is gone or changed")
        if prune:
            expect_eq(outcome + "-keeps-ref-counts", norm_counts(trie), pre_counts,
                      "reference counts")

    # the trie must remain fully usable and correct afterwards
    # (the follow-up history is played without per-step oracles - any exception from it is
    # a violation - and everything is compared once at its end; the first exit of each
    # case gets the full per-step oracles)
    checks = {"map", "root"} | ({"prune"} if prune else set())
    if exit_kind == "commit" or (exit_kind == "abort" and exit_arg == 0):
        run_history(None, checks, info, state=(trie, db, model), ops=case["rest"],
                    sparse=bool(case.get("sparse")))
    else:
        play(trie, model, case["rest"])
        run_history(None, checks, info, state=(trie, db, model), ops=[])
    return measured_w, effective_on_existing


def _run_exit(case, exit_kind, exit_arg, info):
    if case.get("in_handler"):
        # the block is used while the caller is handling an unrelated exception
        try:
            raise LookupError("unrelated exception being handled by the caller")
        except LookupError:
            return _run_exit_inner(case, exit_kind, exit_arg, info)
    return _run_exit_inner(case, exit_kind, exit_arg, info)


def _run_big(case, info):
    """One very large batch (thousands of scratch entries) on a trie with some history."""
    n, prune = case["big"]
    db = FaultDB()
    trie = impl("construct", HexaryTrie, db, prune=bool(prune))
    model = {}
    for i in range(40):
        k = b"pre" + bytes([i])
        impl("set-never-raises", trie.set, k, bytes([i]) * 33)
        model[k] = bytes([i]) * 33
    pre_db = dict(db)
    cm = impl("squash_changes", trie.squash_changes)
    b = cm_enter("squash_changes", cm)
    for i in range(n):
        k = b"big" + i.to_bytes(3, "big")
        v = (i % 251).to_bytes(1, "big") * (1 + i % 40)
        impl("set-never-raises", b.set, k, v)
        model[k] = v
        if i % 7 == 3:
            d = b"big" + (i - 2).to_bytes(3, "big")
            impl("delete-never-raises", b.delete, d)
            model.pop(d, None)
    cm_exit("squash_changes-exit", cm)
    ref = RefTrie(model)
    expect_eq("commit-adopts-canonical-root", bytes(trie.root_hash), ref.root_hash, f"outer root after a batch of {n} sets")
    _, bodies = ref.hashed_multiset()
    missing = [h for h, body in bodies.items() if db.get(h) != body]
    expect("commit-stores-every-node", not missing,
           lambda: f"{len(missing)} of {len(bodies)} nodes needed for the new root are missing after a batch of {n} sets")
    if prune:
        check_prune(trie, db, model, info, ref)
    else:
        gone = [h for h in pre_db if h not in db]
        expect("commit-removes-nothing", not gone, lambda: f"{len(gone)} entries stored before the block were removed")
    for k in list(model)[:: max(1, len(model) // 50)]:
        expect_eq("get-returns-latest", impl("lookup-never-raises", trie.get, k), model[k], f"get({k!r}) after the big batch")
    info.label("big-batch")
    info.nontrivial = True
    return info


def run_case(case):
    info = Info()
    if case.get("big"):
        return _run_big(case, info)
    n = len(case["batch"])
    info.label("block-inside-except-handler", bool(case.get("in_handler")))
    w, eff = _run_exit(case, "commit", None, info)
    info.count("exits")
    for i in range(n + 1):
        _run_exit(case, "abort", i, info)
        info.count("exits")
    if not case["prune"]:
        for k in range(w or 0):
            _run_exit(case, "fail", k, info)
            info.count("commit_faults")
    info.label("effective-ops>=2", eff >= 2)
    info.label("prior-nonempty", bool(case["prior"]))
    info.nontrivial = eff >= 2 and n >= 2
    return info
