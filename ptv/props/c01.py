"""C01 - HexaryTrie behaves as a byte-string map under every history."""
import itertools

from hypothesis import strategies as st

from ..hexcommon import histories
from ..deepchain import build_chain
from ..hexrun import check_lookup, run_history
from ..util import Info, call_with_headroom, expect_eq, impl

ID = "C01"
LEVEL = "exploration"
BUDGET = {"quick": 7000, "thorough": 250000}
RULE = (
    "case = (prune flag, history of set/delete/set-empty ops in method or dict syntax, "
    "directly or inside committed squash_changes batches; keys from structure-directed "
    "pools: prefix-related, empty, mid-byte divergence, shared 30/31-byte prefixes, "
    "index-based neighbours of stored keys; values around the 32-byte embedding "
    "threshold). Oracle: Python dict; after EVERY op (also inside batches) the stored "
    "keys and the touched key's neighbourhood (proper prefixes, +1 byte, nibble flips) "
    "are looked up via get/[]/exists/in, full sweep after every batch and at the end; "
    "any exception from a lookup is a violation. Non-trivial = history has >=1 "
    "effective delete or overwrite AND a looked-up absent key that is a proper prefix "
    "of a stored key and ends inside an extension or at a branch/extension node of the "
    "reference trie. Distinct = canonical JSON of the case."
    " Added after the seeded rounds: half of the cases run in sparse-lookup mode (no automatic look-ups after each step - only generated single look-ups in one spelling - and one sweep at the end), look-change-look probe fragments, re-pointing the same trie object at an earlier root, writing a key's previous value back, keys/values passed as HexBytes or a bytes subclass overriding hex(), values equal to node hashes / encodings / BLANK_NODE_HASH and of up to 66 kB, blocks left by Exception / BaseException / KeyboardInterrupt / falsy exception / KeyError; fixed deep-chain cases (nested prefix keys 200 levels deep - or as deep as set() can build if that is less -, also read with only 100 frames of stack left)."
)
LEVEL_TEXT = (
    "Exploration by model-based property testing: generated histories are run against "
    "py-trie and a dict model, compared by equality after every step with all four "
    "lookup spellings; plus bounded-exhaustive enumeration of all histories of length "
    "<=3 (quick) / <=4 (thorough) over a 6-key prefix-closed universe x 3 actions x prune."
)
LEVEL_NOTE = "Trusted: CPython dict, Hypothesis. Aborted batches are generated too (the map must then be what it was before the block); the atomicity claim itself, with commit faults, is C05's. Nested batches are out of scope."
TECHNIQUE = "model-based property testing (Hypothesis histories vs dict model) + bounded-exhaustive enumeration"

UNIVERSE = [b"", b"\x00", b"\x00\x00", b"\x00\x10", b"\x01", b"\x10"]


def strategy(tier):
    return st.fixed_dictionaries(
        {"prune": st.booleans(), "sparse": st.booleans(),
         "ops": histories(tier, batches=True, aborts=True, looks=2, reroot=True)}
    )


def exhaustive(tier):
    n = 3 if tier == "quick" else 4
    acts = []
    for k in UNIVERSE:
        acts.append(("set", ("lit", k), ("lit", b"s"), 0))
        acts.append(("set", ("lit", k), ("lit", b"L" * 33), 1))
        acts.append(("del", ("lit", k), 0))

    def gen():
        for length in range(1, n + 1):
            for seq in itertools.product(acts, repeat=length):
                for prune in (False, True):
                    yield {"prune": prune, "ops": list(seq)}

    yield (f"all histories of length<={n} over the 6-key universe x (short,long,delete) x prune", gen())
    yield ("deep chain of nested prefix keys (200 levels, or as deep as set() can build if that is less), with and without side branches",
           iter([{"deep": 0}, {"deep": 1}]))


def _run_deep(case, info):
    t, model, keys = build_chain(fan=bool(case["deep"]))
    info.count("deep_chain_levels", len(keys))
    probes = list(model) + [k + b"\x00" for k in keys[::7]] + [k[:-1] + bytes([k[-1] ^ 1]) for k in keys[::5]]
    for k in probes:
        check_lookup(t, model, k, True)
    # look-ups are iterative by design: they must also work for a caller that sits deep in its
    # own recursion (only 100 frames left below the interpreter's recursion limit)
    for k in keys[::23] + keys[-2:]:
        got = impl("lookup-never-raises", call_with_headroom, 100, lambda: (t.get(k), t.exists(k), k in t, t[k]))
        expect_eq("get-returns-latest", got, (model[k], True, True, model[k]), f"look-ups of a {len(k)}-byte key from a deep call stack")
    # deleting from the deepest key upwards keeps every remaining key readable
    for k in reversed(keys[len(keys) // 2:]):
        impl("delete-never-raises", t.delete, k)
        del model[k]
    for k in list(model)[::3] + keys[len(keys) // 2:][::9]:
        check_lookup(t, model, k, False)
    info.label("deep-chain")
    info.nontrivial = len(keys) >= 100
    return info


def run_case(case):
    info = Info()
    if "deep" in case:
        return _run_deep(case, info)
    facts = run_history(case, {"map"}, info)
    info.nontrivial = (
        (facts["deletes"] + facts["overwrites"]) > 0
        and "absent-prefix-inside-ext-or-at-branch" in info.labels
    )
    return info
