"""C13 - binary-trie branches and witnesses are sufficient, exact and unforgeable."""
from collections import Counter

from eth_hash.auto import keccak
from hypothesis import strategies as st

from trie import BinaryTrie
from trie.branches import (
    check_if_branch_exist,
    get_branch,
    get_trie_nodes,
    get_witness_for_key_prefix,
    if_branch_valid,
)
from trie.exceptions import InvalidKeyError

from ..ref.bintrie import MALFORMED, MISSING, RefBin, bits_of, resolve
from ..util import Info, Raised, expect, expect_eq, impl
from .c12 import BLANK as BLANK_HASH, _LAST as _C12_LAST, _conflicts, resolve_arg, resolve_bin_val, strategy as c12_history

ID = "C13"
LEVEL = "exploration"
BUDGET = {"quick": 8000, "thorough": 900000}
RULE = (
    "case = (C12-style history building a non-empty BinaryTrie, so the db also holds "
    "stale nodes; a second history for a sibling trie; keys/prefixes: stored, absent "
    "diverging, too short, too long, byte prefixes, b''; a corruption script over "
    "get_branch output: drop, truncate, alter a byte, swap, splice the branch of another "
    "key / of the sibling trie; a claimed value: true value, another value, None). "
    "Oracles: get_branch(k) may raise InvalidKeyError only if k is not stored and is a "
    "proper prefix/extension of a stored key; otherwise if_branch_valid(branch, root, k, "
    "get(k)) is True and every branch node is a node of the reference trie. For the "
    "corrupted branch / claimed value, if_branch_valid must not return True unless an "
    "independent resolver over exactly those nodes yields the claimed value. "
    "check_if_branch_exist(p) == any(k.startswith(p)); get_trie_nodes(root) == reference "
    "reachable nodes (multiset); get_witness_for_key_prefix(p) raises InvalidKeyError "
    "only if p properly extends a stored key, else is a subset of the trie's nodes and a "
    "BinaryTrie over exactly the witness answers get(k) correctly (no KeyError) for "
    "every stored k under p and generated absent keys under p. Non-trivial = branch of "
    ">=3 nodes and a corrupted-but-still-parsable branch was offered. Distinct = "
    "canonical JSON."
    ' Added after the seeded rounds: every other case keeps its trie in a minimal mapping class (item access and `in` only); the same request is first made on a root-only partial database; forged branches are also offered as a mapping {claimed hash: node}; values equal to node hashes.'
)
LEVEL_TEXT = (
    "Exploration by differential property testing: honest branches/witnesses against "
    "the reference binary trie (node membership, sufficiency by re-reading from a db "
    "holding only the witness), forged branches against an independent resolver."
)
LEVEL_NOTE = "Unforgeability is relative to keccak collision resistance and to the corruption grammar. Any exception from if_branch_valid counts as 'not validated'."
TECHNIQUE = "differential property testing: branch/witness helpers vs reference binary trie and independent resolver on generated corruptions"


def strategy(tier):
    hist = c12_history(tier)
    from .c12 import keys as c12_keys

    k = c12_keys(tier)
    idx = st.tuples(st.just("idx"), st.integers(0, 40), st.integers(0, 40),
                    st.one_of(st.none(), st.none(), st.integers(0, 255)))
    karg = st.one_of(st.tuples(st.just("lit"), k), idx, idx, idx,
                     st.tuples(st.just("lit"), st.just(b"")))
    step = st.one_of(
        st.tuples(st.just("drop"), st.integers(0, 20), st.integers(0, 255)),
        st.tuples(st.just("trunc"), st.integers(0, 20), st.integers(0, 255)),
        st.tuples(st.just("byte"), st.integers(0, 20), st.integers(0, 255)),
        st.tuples(st.just("byte"), st.integers(0, 20), st.integers(0, 255)),
        st.tuples(st.just("swap"), st.integers(0, 20), st.integers(0, 20)),
        st.tuples(st.just("other"), st.integers(0, 20), st.integers(0, 255)),
        st.tuples(st.just("other"), st.integers(0, 20), st.integers(0, 255)),
        st.tuples(st.just("sibling"), st.integers(0, 20), st.integers(0, 255)),
        st.tuples(st.just("sibling"), st.integers(0, 20), st.integers(0, 255)),
    )
    return st.fixed_dictionaries(
        {
            "hist": hist,
            "hist2": st.lists(st.one_of(hist.map(lambda h: h[0])), max_size=3),
            "keys": st.lists(karg, min_size=1, max_size=4),
            "script": st.one_of(st.just([]), st.lists(step, min_size=1, max_size=3),
                                st.lists(step, min_size=1, max_size=3), st.lists(step, min_size=1, max_size=3),
                                st.lists(step, min_size=1, max_size=2)),
            "claim": st.tuples(st.integers(0, 2), st.binary(min_size=1, max_size=3)),
            "root": st.integers(0, 3),
        }
    )


class MinimalDB:
    """A node database that offers exactly what BinaryTrie needs: item access and `in`."""

    def __init__(self):
        self._d = {}

    def __getitem__(self, key):
        return self._d[key]

    def __setitem__(self, key, value):
        self._d[key] = value

    def __contains__(self, key):
        return key in self._d

    def as_dict(self):
        return dict(self._d)


def _play(t, model, hist):
    from trie.exceptions import NodeOverrideError

    for kind, kspec, val, syn in hist:
        if kind in ("reroot", "sparse"):
            continue
        k = resolve_arg(kspec, model)
        val = resolve_bin_val(val, t.db.as_dict() if isinstance(t.db, MinimalDB) else t.db)
        new = dict(model)
        if kind == "set":
            if _conflicts(k, model):
                new = None
            else:
                new[k] = val
            fn = lambda: t.set(k, val)  # noqa: E731
        elif kind in ("sete", "del"):
            new.pop(k, None)
            fn = lambda: t.delete(k)  # noqa: E731
        else:
            for s in [s for s in model if s.startswith(k)]:
                del new[s]
            fn = lambda: t.delete_subtrie(k)  # noqa: E731
        r = impl("only-NodeOverrideError", fn, allowed=(NodeOverrideError,))
        if not isinstance(r, Raised) and new is not None:
            model.clear()
            model.update(new)


def run_case(case):
    info = Info()
    _C12_LAST["key"] = b"\x12"  # no state carried over from another case
    minimal = len(case["hist"]) % 2 == 1  # every other case lives in a minimal mapping, not a dict
    db = MinimalDB() if minimal else {}
    info.label("minimal-db", minimal)
    t = impl("construct", BinaryTrie, db)
    model = {}
    _play(t, model, case["hist"])
    # ---- the empty trie: nothing stored, so no prefix exists and there are no nodes -------
    empties = [({}, BLANK_HASH, "a fresh empty trie")]
    if not model:
        empties.append((db, bytes(t.root_hash), "the trie emptied by the history"))
        info.label("history-ends-empty")
    for edb, eroot, what in empties:
        for kspec in case["keys"]:
            k = kspec[1] if kspec[0] == "lit" else b"\x12"
            got = impl("check_if_branch_exist", check_if_branch_exist, edb, eroot, k)
            expect_eq("branch-exists-iff-key-starts-with", got, False, f"check_if_branch_exist({k!r}) on {what}")
            got = impl("get_branch", get_branch, edb, eroot, k)
            expect_eq("branch-nodes-belong-to-trie", got, (), f"get_branch({k!r}) on {what}")
            got = impl("get_witness_for_key_prefix", get_witness_for_key_prefix, edb, eroot, k)
            expect_eq("witness-only-trie-nodes", got, (), f"get_witness_for_key_prefix({k!r}) on {what}")
        expect_eq("trie-nodes-exact", impl("get_trie_nodes", get_trie_nodes, edb, eroot), (), f"get_trie_nodes on {what}")
    if not model:
        impl("set", t.set, b"\x12\x34", b"fallback")
        model[b"\x12\x34"] = b"fallback"
    ref = RefBin(model)
    root = bytes(t.root_hash)
    expect_eq("root-precondition", root, ref.root_hash, "root (precondition)")
    db2 = db.as_dict() if minimal else dict(db)
    t2 = impl("construct", BinaryTrie, db2, root)
    model2 = dict(model)
    _play(t2, model2, case["hist2"])
    reach = ref.reachable_bodies()

    # ---- get_trie_nodes: exactly the reachable nodes ---------------------------------
    impl("get_trie_nodes", get_trie_nodes, {root: db[root]}, root)  # a partial copy is asked first
    nodes = impl("get_trie_nodes", get_trie_nodes, db, root)
    expect("trie-nodes-exact", isinstance(nodes, tuple), lambda: f"get_trie_nodes returned {nodes!r}")
    expect_eq("trie-nodes-exact", Counter(nodes), Counter(ref.order), "get_trie_nodes(root) as a multiset")

    parsable_corruption = False
    longest = 0
    forged_store = []
    for kspec in case["keys"]:
        k = resolve_arg(kspec, model) if kspec[1] != b"" or kspec[0] != "lit" else b""
        # ---- check_if_branch_exist --------------------------------------------------
        got = impl("check_if_branch_exist", check_if_branch_exist, db, root, k)
        expect_eq("branch-exists-iff-key-starts-with", got, any(s.startswith(k) for s in model),
                  f"check_if_branch_exist({k!r}) on {sorted(model)}")
        # ---- get_branch + if_branch_valid --------------------------------------------
        conflict = k not in model and (_conflicts(k, model) or (k == b"" and bool(model)))
        br = impl("get_branch", get_branch, db, root, k, allowed=(InvalidKeyError,))
        if isinstance(br, Raised):
            expect("branch-refused-only-for-prefix-or-extension", conflict,
                   lambda: f"get_branch({k!r}) refused although {k!r} is "
                           f"{'stored' if k in model else 'not a proper prefix/extension of a stored key'}: {sorted(model)}")
            info.label("branch-refused")
        else:
            truth = model.get(k)
            expect("branch-nonempty", isinstance(br, tuple) and len(br) >= 1,
                   lambda: f"get_branch({k!r}) of a non-empty trie returned {br!r}")
            expect("branch-nodes-belong-to-trie", all(n in reach for n in br),
                   lambda: f"get_branch({k!r}) contains a node that is not in the trie")
            if br:
                ok = impl("if_branch_valid", if_branch_valid, br, root, k, truth, allowed=(Exception,))
                expect("honest-branch-validates", ok is True,
                       lambda: f"if_branch_valid rejects the honest branch of {k!r} (answer {truth!r}): {ok!r}")
                r = resolve(root, bits_of(k), br)
                expect("honest-branch-sufficient", r == truth,
                       lambda: f"an independent reader cannot establish {k!r} -> {truth!r} from get_branch: {r!r}")
            longest = max(longest, len(br))
            info.label("branch-present" if truth is not None else "branch-absent-key")
            # ---- corrupted branch ------------------------------------------------------
            forged = list(br)
            applied = 0
            for stp in case["script"]:
                kind = stp[0]
                if kind == "drop" and forged:
                    del forged[stp[1] % len(forged)]
                    applied += 1
                elif kind == "trunc" and forged:
                    i = stp[1] % len(forged)
                    forged[i] = forged[i][: max(1, len(forged[i]) - 1 - stp[2] % 3)]
                    applied += 1
                elif kind == "byte" and forged:
                    i = stp[1] % len(forged)
                    n = bytearray(forged[i])
                    pos = 1 + stp[2] % max(1, len(n) - 1) if len(n) > 1 else 0
                    n[pos % len(n)] ^= 1 + (stp[2] % 255)
                    if n[0] not in (0, 1, 2):
                        n[0] = stp[2] % 3
                    forged[i] = bytes(n)
                    applied += 1
                elif kind == "swap" and len(forged) >= 2:
                    i, j = stp[1] % len(forged), stp[2] % len(forged)
                    forged[i], forged[j] = forged[j], forged[i]
                    applied += 1
                elif kind == "other" and model:
                    ok_ = sorted(model)[stp[1] % len(model)]
                    ob = impl("get_branch", get_branch, db, root, ok_)
                    forged = list(ob) if stp[2] % 2 else forged + list(ob)
                    applied += 1
                elif kind == "sibling" and model2:
                    ok_ = sorted(model2)[stp[1] % len(model2)]
                    ob = impl("get_branch", get_branch, db2, bytes(t2.root_hash), ok_)
                    forged = list(ob) if stp[2] % 2 else forged + list(ob)
                    applied += 1
            sel, other_val = case["claim"]
            claim = truth if sel == 0 else (None if sel == 2 else other_val)
            claimed_root = [root, root, bytes(t2.root_hash),
                            keccak(forged[0]) if forged else root][case["root"]]
            if forged:
                forged_store.append((list(forged), claimed_root, claim))
                want = resolve(claimed_root, bits_of(k), forged)
                got = impl("if_branch_valid", if_branch_valid, forged, claimed_root, k, claim,
                           allowed=(Exception,))
                info.label("script-applied", applied > 0)
                if want not in (MISSING, MALFORMED):
                    parsable_corruption |= applied > 0
                    info.label("corrupted-still-parsable", applied > 0)
                if got is True:
                    expect("forged-branch-never-validates-wrong-answer",
                           want not in (MISSING, MALFORMED) and want == claim,
                           lambda: f"if_branch_valid accepted claim {claim!r} for {k!r}; the offered nodes "
                                   f"establish {want if want not in (MISSING, MALFORMED) else 'nothing'!r}")
                    info.label("forged-accepted")
                else:
                    info.label("forged-rejected")
                    if claimed_root == root:
                        # the answer the trie gives must not be validated by a *wrong* claim only
                        pass
        # ---- witness ----------------------------------------------------------------------
        # the same request against a partial database first (a light client that holds only
        # the root node): whatever it returns must not influence the answer for the full db
        impl("get_witness_for_key_prefix", get_witness_for_key_prefix, {root: db[root]}, root, k,
             allowed=(InvalidKeyError, KeyError))
        if forged_store:
            # a forged branch offered as a mapping {claimed hash: node}: only the nodes count
            fb, froot, fclaim = forged_store[-1]
            as_map = {froot: fb[0]}
            for nd in fb[1:]:
                as_map[keccak(nd)] = nd
            offered = list(as_map)  # what a consumer of "a sequence of nodes" sees
            want_m = resolve(froot, bits_of(k), [n for n in offered if isinstance(n, bytes)])
            got_m = impl("if_branch_valid", if_branch_valid, as_map, froot, k, fclaim, allowed=(Exception,))
            if got_m is True:
                expect("forged-branch-never-validates-wrong-answer",
                       want_m not in (MISSING, MALFORMED) and want_m == fclaim,
                       lambda: f"if_branch_valid accepted claim {fclaim!r} for {k!r} from a mapping keyed by "
                               f"unverified hashes")
            info.label("branch-as-mapping")
        w = impl("get_witness_for_key_prefix", get_witness_for_key_prefix, db, root, k,
                 allowed=(InvalidKeyError,))
        extends_stored = any(k != s and k.startswith(s) for s in model)
        if isinstance(w, Raised):
            expect("witness-refused-only-past-a-leaf", extends_stored,
                   lambda: f"get_witness_for_key_prefix({k!r}) refused although it does not run past a leaf")
            info.label("witness-refused")
        else:
            expect("witness-only-trie-nodes", isinstance(w, tuple), lambda: f"get_witness_for_key_prefix({k!r}) returned {w!r}")
            expect("witness-only-trie-nodes", all(n in reach for n in w),
                   lambda: f"witness for {k!r} contains a node that is not in the trie")
            wdb = {keccak(n): n for n in w}
            wt = impl("construct", BinaryTrie, wdb, root)
            under = [s for s in model if s.startswith(k)]
            probes = set(under)
            for s in under[:4]:
                probes.add(s[:-1] + bytes([s[-1] ^ 1]))
                probes.add(s + b"\x00")
            probes.add(k + b"\x00\x00")
            probes.add(k + b"\xff")
            for q in sorted(p for p in probes if p.startswith(k) and p):
                got = impl("witness-sufficient", wt.get, q)
                expect_eq("witness-sufficient", got, model.get(q), f"get({q!r}) from the witness of {k!r}")
            info.label("witness-subtrie>=2", len(under) >= 2)
    info.label("branch-len>=3", longest >= 3)
    info.nontrivial = longest >= 3 and parsable_corruption
    return info
