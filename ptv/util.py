"""Shared plumbing: violations, the explicit call gate into py-trie, canonical JSON."""
import hashlib
import json


class Violation(Exception):
    """The code under test disagreed with the oracle.  check = short stable name."""

    def __init__(self, check, message):
        super().__init__(check, message)
        self.check = check
        self.message = message

    def __str__(self):
        return f"[{self.check}] {self.message}"


class HarnessError(Exception):
    """Something is wrong with the machinery itself (never a VIOLATION)."""


class Info:
    """What a case turned out to exercise; filled in by run_case."""

    __slots__ = ("labels", "nontrivial", "counters", "scratch")

    def __init__(self):
        self.labels = set()
        self.nontrivial = False
        self.counters = {}
        self.scratch = {}  # per-case working memory of the oracles (never reported)

    def label(self, name, cond=True):
        if cond:
            self.labels.add(name)

    def count(self, name, n=1):
        self.counters[name] = self.counters.get(name, 0) + n


class Raised:
    """Result of impl() when an *allowed* exception was raised."""

    __slots__ = ("exc",)

    def __init__(self, exc):
        self.exc = exc

    def __repr__(self):
        return f"Raised({type(self.exc).__name__}: {self.exc})"

    def __eq__(self, other):
        return isinstance(other, Raised) and type(other.exc) is type(self.exc)

    def __hash__(self):
        return hash(type(self.exc))


def impl(check, fn, *args, allowed=(), **kwargs):
    """
    The only way harness code calls into py-trie.  An exception outside `allowed`
    is a violation of `check` ("never raises"); an allowed one is returned as Raised.
    """
    try:
        return fn(*args, **kwargs)
    except Violation:
        raise
    except allowed as exc:  # type: ignore[misc]
        return Raised(exc)
    except Exception as exc:  # noqa: BLE001 - this *is* the gate
        name = getattr(fn, "__qualname__", None) or getattr(fn, "__name__", None) or safe_repr(fn)
        try:
            text = str(exc)
        except Exception as exc2:  # noqa: BLE001 - a message that cannot be rendered
            text = f"<message not printable: {type(exc2).__name__}>"
        raise Violation(
            check,
            f"{name}{_short(args)} raised {type(exc).__name__}: {_short(text, 300)}",
        ) from exc


def expect(check, cond, message):
    if not cond:
        if callable(message):
            try:
                message = message()
            except Exception as exc:  # noqa: BLE001 - describing the failure must not hide it
                message = f"<failure could not be described: {type(exc).__name__}: {exc}>"
        raise Violation(check, message)


def expect_eq(check, got, want, what):
    # equality, never truthiness; type-strict (True is not 1, None is not b"", a list is not a
    # tuple) - except that an instance of a SUBCLASS of bytes / tuple with equal content is the
    # same value (HexBytes for bytes, Nibbles for a tuple): no statement distinguishes them
    same_type = type(got) is type(want) or (type(want) in (bytes, tuple) and isinstance(got, type(want)))
    if not same_type or got != want:
        raise Violation(check, f"{what}: got {_short(got)}, expected {_short(want)}")


def safe_repr(x):
    """repr() that never raises (the printable form of an object is not under test)."""
    try:
        return repr(x)
    except Exception as exc:  # noqa: BLE001
        if isinstance(x, (tuple, list)):
            return "(" + ", ".join(safe_repr(i) for i in x) + ")"
        try:
            return f"<{type(x).__name__} {int(x)}>"
        except Exception:  # noqa: BLE001
            return f"<{type(x).__name__}: repr raised {type(exc).__name__}>"


class _Lazy:
    """Wrap library objects inside an f-string: formatted only if the message is used."""

    def __init__(self, x):
        self.x = x

    def __repr__(self):
        return safe_repr(self.x)

    __str__ = __repr__

    def __format__(self, spec):
        return safe_repr(self.x)


def L(x):
    return _Lazy(x)


def _short(x, n=200):
    s = x if isinstance(x, str) else safe_repr(x)
    return s if len(s) <= n else s[: n - 3] + "..."


# ---------------------------------------------------------------- canonical JSON

def to_jsonable(x):
    if isinstance(x, (bytes, bytearray)):
        return "h:" + bytes(x).hex()
    if isinstance(x, (list, tuple)):
        return [to_jsonable(i) for i in x]
    if isinstance(x, dict):
        return {str(k): to_jsonable(v) for k, v in x.items()}
    if isinstance(x, (str, int, bool)) or x is None:
        if isinstance(x, str) and x.startswith("h:"):
            raise HarnessError("plain strings in a case must not start with 'h:'")
        return x
    if isinstance(x, float):
        return x
    raise HarnessError(f"case contains a non-serialisable value: {x!r}")


def from_jsonable(x):
    if isinstance(x, str):
        return bytes.fromhex(x[2:]) if x.startswith("h:") else x
    if isinstance(x, list):
        return [from_jsonable(i) for i in x]
    if isinstance(x, dict):
        return {k: from_jsonable(v) for k, v in x.items()}
    return x


def canonical(case):
    return json.dumps(to_jsonable(case), sort_keys=True, separators=(",", ":"))


def digest64(text):
    return int.from_bytes(hashlib.blake2b(text.encode(), digest_size=8).digest(), "big")


def nibbles_of(b):
    out = []
    for c in b:
        out.append(c >> 4)
        out.append(c & 15)
    return tuple(out)


def bytes_of_nibbles(n):
    assert len(n) % 2 == 0
    return bytes(n[i] * 16 + n[i + 1] for i in range(0, len(n), 2))


def bits_of(b):
    return tuple((c >> (7 - i)) & 1 for c in b for i in range(8))


class Abort(Exception):
    """Raised by the harness inside a with-block of the code under test."""


class BaseAbort(BaseException):
    """Leaves a with-block by an exception that is not an Exception subclass."""


class FalsyAbort(Exception):
    """An exception instance whose truth value is False (e.g. an empty error collection)."""

    def __bool__(self):
        return False

    def __len__(self):
        return 0


def abort_exception(n):
    """
    The exception used to leave a block: an Exception, a bare BaseException,
    KeyboardInterrupt, an Exception instance that is falsy, or a KeyError raised by the
    caller's own code (the library catches KeyError internally for missing nodes).
    """
    return [Abort("injected"), BaseAbort("injected"), KeyboardInterrupt("injected"), FalsyAbort("injected"),
            KeyError("the caller's own failed lookup")][n % 5]


def cm_enter(check, cm):
    return impl(check, cm.__enter__)


def cm_exit(check, cm, exc=None, allowed=()):
    """
    Leave a context manager of the code under test, normally or with `exc`.
    Returns ('ok', None) if it completed (for exc: the exception keeps propagating or
    was swallowed - both count as "block left by exception"), or ('raised', e) when
    the exit itself raised an allowed exception / re-raised a different one.
    """
    try:
        if exc is None:
            cm.__exit__(None, None, None)
        else:
            cm.__exit__(type(exc), exc, None)
        return ("ok", None)
    except BaseException as e:  # noqa: BLE001
        if e is exc:
            return ("ok", None)
        if allowed and isinstance(e, allowed):
            return ("raised", e)
        if isinstance(e, Violation):
            raise
        raise Violation(
            check, f"leaving the block raised {type(e).__name__}: {_short(str(e), 300)}"
        ) from e


def as_bytes(check, x, what):
    """A result of the code under test that must be a byte string."""
    if not isinstance(x, (bytes, bytearray)):
        raise Violation(check, f"{what}: got {_short(x)} instead of a byte string")
    return bytes(x)


def as_bytes_tuple(check, xs, what):
    """A result that must be a sequence of byte strings (e.g. a branch / a path of hashes)."""
    if not isinstance(xs, (tuple, list)):
        raise Violation(check, f"{what}: got {_short(xs)} instead of a sequence of hashes")
    return tuple(as_bytes(check, x, what) for x in xs)


def as_nibbles(check, x, what):
    """A result that must be a sequence of nibbles (ints 0..15) -> tuple of ints."""
    try:
        out = tuple(int(i) for i in x)
    except (TypeError, ValueError) as exc:
        raise Violation(check, f"{what}: got {_short(x)} instead of a nibble sequence") from exc
    if any(not 0 <= i <= 15 for i in out):
        raise Violation(check, f"{what}: {out} is not a nibble sequence")
    return out


def call_with_headroom(headroom, fn):
    """
    Call fn() from deep down the call stack, leaving only `headroom` Python frames below the
    interpreter's recursion limit - what a caller sitting deep inside its own recursion sees.
    Operations that are iterative by design need a small constant number of frames.
    """
    import sys

    depth, f = 0, sys._getframe()
    while f is not None:
        depth += 1
        f = f.f_back
    need = sys.getrecursionlimit() - depth - headroom

    def go(n):
        if n <= 0:
            return fn()
        return go(n - 1)

    return go(need)
