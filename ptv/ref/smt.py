"""
Reference sparse Merkle tree: the root of the full depth-8*key_size tree whose leaves
are keccak(value or default), computed from the {key: value} set with precomputed
default-subtree hashes.  A node at level L (0 = root, depth = leaf) covers the keys
that share its L leading bits.
"""
from eth_hash.auto import keccak


class RefSMT:
    def __init__(self, key_size, default):
        self.key_size = key_size
        self.depth = key_size * 8
        self.default = default
        d = [None] * (self.depth + 1)
        d[self.depth] = keccak(default)
        for lvl in range(self.depth - 1, -1, -1):
            d[lvl] = keccak(d[lvl + 1] + d[lvl + 1])
        self.defaults = d

    def _bit(self, key_int, level):
        # bit deciding the child taken when leaving a node at `level` (MSB first)
        return (key_int >> (self.depth - 1 - level)) & 1

    def _sub(self, level, items):
        """hash of the node at `level` covering exactly `items` (list of (int key, value))."""
        if not items:
            return self.defaults[level]
        if level == self.depth:
            assert len(items) == 1
            return keccak(items[0][1])
        left = [it for it in items if self._bit(it[0], level) == 0]
        right = [it for it in items if self._bit(it[0], level) == 1]
        return keccak(self._sub(level + 1, left) + self._sub(level + 1, right))

    def items_of(self, mapping):
        # keys explicitly written with the default value hash like untouched keys
        return [(int.from_bytes(k, "big"), v) for k, v in sorted(mapping.items())]

    def root(self, mapping):
        return self._sub(0, self.items_of(mapping))

    def path_and_siblings(self, mapping, key):
        """
        (path hashes, sibling hashes), both root->leaf for levels 1..depth: path[i] is
        the hash of the node on the key's path at level i+1, siblings[i] its sibling.
        """
        k = int.from_bytes(key, "big")
        items = self.items_of(mapping)
        sibs = []
        for level in range(self.depth):
            bit = self._bit(k, level)
            other = [it for it in items if self._bit(it[0], level) != bit]
            items = [it for it in items if self._bit(it[0], level) == bit]
            sibs.append(self._sub(level + 1, other))
        # the path nodes follow from the leaf and the siblings, leaf upwards
        h = keccak(items[0][1]) if items else self.defaults[self.depth]
        path = [None] * self.depth
        for level in range(self.depth - 1, -1, -1):
            path[level] = h  # node at level+1
            bit = self._bit(k, level)
            h = keccak(sibs[level] + h) if bit else keccak(h + sibs[level])
        return tuple(path), tuple(sibs), h


def fold_root(key, value, siblings):
    """Leaf-to-root fold of a branch (what a verifier does), written independently."""
    k = int.from_bytes(key, "big")
    h = keccak(value)
    depth = len(siblings)
    for level in range(depth - 1, -1, -1):
        bit = (k >> (depth - 1 - level)) & 1
        h = keccak(siblings[level] + h) if bit else keccak(h + siblings[level])
    return h
