"""
Reference Merkle-Patricia trie, built from scratch out of the key/value *set*
(Yellow Paper appendix D: c(J, i)), never by incremental insertion.

Nothing here imports from `trie`.  keccak comes from eth_hash (trusted, KAT-checked).
"""
from collections import Counter

from eth_hash.auto import keccak

from .rlp_hp import hp, hp_decode, rlp_encode

BLANK_ROOT = keccak(rlp_encode(b""))  # 56e81f17...
MISSING = object()


def nibbles_of(b):
    out = []
    for c in b:
        out.append(c >> 4)
        out.append(c & 15)
    return tuple(out)


class RNode:
    __slots__ = (
        "kind",  # 'blank' | 'leaf' | 'ext' | 'branch'
        "path",  # nibbles stored in a leaf / extension
        "value",  # leaf value / branch value (b'' if none)
        "children",  # branch: 16 RNodes
        "child",  # extension: RNode
        "prefix",  # nibbles from the root to this node
        "raw",  # list structure (embedded children as lists, hashed ones as 32 bytes)
        "enc",  # rlp(raw)
        "ref",  # how a parent refers to it: raw (embedded) or keccak(enc)
        "hashed",  # len(enc) >= 32
    )

    def subs(self):
        if self.kind == "ext":
            return [self.child]
        if self.kind == "branch":
            return [c for c in self.children if c.kind != "blank"]
        return []

    def sub_segments(self):
        if self.kind == "ext":
            return (self.path,)
        if self.kind == "branch":
            return tuple((i,) for i, c in enumerate(self.children) if c.kind != "blank")
        return ()

    def suffix(self):
        return self.path if self.kind == "leaf" else ()

    def __repr__(self):
        return f"<{self.kind}@{self.prefix} path={self.path} value={self.value!r}>"


def _blank(prefix):
    n = RNode()
    n.kind = "blank"
    n.path = ()
    n.value = b""
    n.children = None
    n.child = None
    n.prefix = prefix
    n.raw = b""
    n.enc = rlp_encode(b"")
    n.ref = b""
    n.hashed = False
    return n


def _build(items, depth, prefix):
    """items: sorted list of (nibbles, value), all sharing nibbles[:depth]."""
    if not items:
        return _blank(prefix)
    n = RNode()
    n.prefix = prefix
    n.children = None
    n.child = None
    n.value = b""
    n.path = ()
    if len(items) == 1:
        k, v = items[0]
        n.kind = "leaf"
        n.path = k[depth:]
        n.value = v
        n.raw = [hp(n.path, True), v]
    else:
        first = items[0][0]
        shortest = min(len(k) for k, _ in items) - depth
        lcp = 0
        while lcp < shortest and all(k[depth + lcp] == first[depth + lcp] for k, _ in items):
            lcp += 1
        if lcp > 0:
            n.kind = "ext"
            n.path = first[depth : depth + lcp]
            n.child = _build(items, depth + lcp, prefix + n.path)
            n.raw = [hp(n.path, False), n.child.ref]
        else:
            n.kind = "branch"
            buckets = [[] for _ in range(16)]
            for k, v in items:
                if len(k) == depth:
                    n.value = v
                else:
                    buckets[k[depth]].append((k, v))
            n.children = [_build(buckets[i], depth + 1, prefix + (i,)) for i in range(16)]
            n.raw = [c.ref for c in n.children] + [n.value]
    n.enc = rlp_encode(n.raw)
    n.hashed = len(n.enc) >= 32
    n.ref = keccak(n.enc) if n.hashed else n.raw
    return n


class RefTrie:
    def __init__(self, mapping):
        for v in mapping.values():
            assert v != b"", "the reference mapping never holds empty values"
        self.mapping = dict(mapping)
        items = sorted((nibbles_of(k), v) for k, v in mapping.items())
        self.root = _build(items, 0, ())
        self.root_body = self.root.enc
        self.root_hash = keccak(self.root.enc)

    # ---------------------------------------------------------------- whole-trie views
    def preorder(self):
        """Every non-blank node, parents first, children left to right."""
        out = []

        def rec(n):
            out.append(n)
            for c in n.subs():
                rec(c)

        if self.root.kind != "blank":
            rec(self.root)
        return out

    def hashed_multiset(self):
        """
        (Counter hash -> number of references in the fully expanded trie, bodies).
        The root is always stored under its hash, even when shorter than 32 bytes.
        Identical sub-tries are re-traversed once per occurrence, which is the
        counting rule of a reference count kept per *reference*.
        """
        counts = Counter()
        bodies = {}
        if self.root.kind == "blank":
            return counts, bodies
        counts[self.root_hash] += 1
        bodies[self.root_hash] = self.root.enc

        def rec(n):
            for c in n.subs():
                if c.hashed:
                    counts[c.ref] += 1
                    bodies[c.ref] = c.enc
                rec(c)

        rec(self.root)
        return counts, bodies

    # ---------------------------------------------------------------- per-path views
    def locate(self, path):
        """
        ('node', n)  the path ends exactly at node n (n may be blank: nothing below)
        ('blank', None) the path leaves the trie
        ('partial', n, traversed, tail) the path ends inside leaf/extension n
        """
        path = tuple(path)
        node = self.root
        rem = path
        while rem:
            if node.kind == "blank":
                return ("blank", None)
            if node.kind == "leaf":
                if node.path[: len(rem)] == rem:
                    return ("partial", node, path[: len(path) - len(rem)], rem)
                return ("blank", None)
            if node.kind == "ext":
                if rem[: len(node.path)] == node.path:
                    rem = rem[len(node.path) :]
                    node = node.child
                elif node.path[: len(rem)] == rem:
                    return ("partial", node, path[: len(path) - len(rem)], rem)
                else:
                    return ("blank", None)
            else:
                node = node.children[rem[0]]
                rem = rem[1:]
        if node.kind == "blank":
            return ("blank", None)
        return ("node", node)

    def path_nodes(self, key_nibbles):
        """Nodes met walking the key from the root until the walk must stop."""
        out = []
        node = self.root
        rem = tuple(key_nibbles)
        while node.kind != "blank":
            out.append(node)
            if node.kind == "leaf":
                break
            if node.kind == "ext":
                if rem[: len(node.path)] == node.path:
                    rem = rem[len(node.path) :]
                    node = node.child
                else:
                    break
            else:
                if not rem:
                    break
                node = node.children[rem[0]]
                rem = rem[1:]
        return out

    def hashed_on_path(self, key_nibbles):
        """[(prefix, hash)] of the stored (hashed or root) nodes on the key's path."""
        out = []
        for n in self.path_nodes(key_nibbles):
            if n is self.root:
                out.append((n.prefix, self.root_hash))
            elif n.hashed:
                out.append((n.prefix, n.ref))
        return out

    def get(self, key):
        return self.mapping.get(key, b"")


def resolve(root_hash, key_nibbles, nodes):
    """
    Independent proof verifier: the value that `key` has in the trie with root
    `root_hash`, as far as it can be established from exactly these nodes (decoded
    list structures), or MISSING when a hash pointer on the path cannot be followed.
    """
    db = {}
    for n in nodes:
        if n == b"":
            continue
        db[keccak(rlp_encode(n))] = n

    def deref(ref):
        if isinstance(ref, list):
            return ref
        if ref == b"" or ref == BLANK_ROOT:
            return b""
        if ref in db:
            return db[ref]
        return MISSING

    node = deref(root_hash)
    rem = tuple(key_nibbles)
    while True:
        if node is MISSING:
            return MISSING
        if node == b"":
            return b""
        if len(node) == 2:
            path, term = hp_decode(node[0])
            if term:
                return node[1] if rem == path else b""
            if len(rem) >= len(path) and rem[: len(path)] == path:
                rem = rem[len(path) :]
                node = deref(node[1])
                continue
            return b""
        if len(node) == 17:
            if not rem:
                return node[16]
            nxt = node[rem[0]]
            rem = rem[1:]
            node = deref(nxt)
            continue
        raise ValueError("malformed node in reference resolver")
