"""
Reference binary trie: the canonical kv / branch / leaf structure of a prefix-free
{key bytes: value} set, built from the set (never incrementally).

  leaf    0x02 || value
  kv      0x00 || pack(path bits) || child hash     (child is a leaf or a branch)
  branch  0x01 || left hash || right hash
  empty   keccak(b'')
"""
from eth_hash.auto import keccak

BLANK = keccak(b"")
MISSING = object()
MALFORMED = object()


def bits_of(b):
    return tuple((c >> (7 - i)) & 1 for c in b for i in range(8))


def pack_path(bits):
    """Tight packing of a bit path: 2 length-mod-4 bits, zero padding to a nibble."""
    n = len(bits)
    body = [0] * ((-n) % 4) + list(bits)
    lenbits = [(n % 4) >> 1, (n % 4) & 1]
    if len(body) % 8 == 4:
        allbits = [0, 0] + lenbits + body
    else:
        allbits = [1, 0, 0, 0, 0, 0] + lenbits + body
    assert len(allbits) % 8 == 0
    out = bytearray()
    for i in range(0, len(allbits), 8):
        byte = 0
        for b in allbits[i : i + 8]:
            byte = (byte << 1) | b
        out.append(byte)
    return bytes(out)


def unpack_path(data):
    bits = [(c >> (7 - i)) & 1 for c in data for i in range(8)]
    if bits[0] == 1:
        bits = bits[4:]
    if bits[0:2] != [0, 0]:
        raise ValueError("bad key path header")
    n_mod = bits[2] * 2 + bits[3]
    return tuple(bits[4 + ((4 - n_mod) % 4) :])


class RefBin:
    def __init__(self, mapping):
        self.mapping = dict(mapping)
        self.bodies = {}
        self.order = []  # bodies in preorder, one entry per occurrence
        items = sorted((bits_of(k), v) for k, v in mapping.items())
        for i in range(len(items) - 1):
            a, b = items[i][0], items[i + 1][0]
            assert b[: len(a)] != a, "reference binary trie needs a prefix-free key set"
        self.shape = None
        if not items:
            self.root_hash = BLANK
        else:
            self.root_hash, self.shape = self._build(items)
        self._preorder(self.shape)

    def _save(self, body):
        h = keccak(body)
        self.bodies[h] = body
        return h

    def _build(self, items):
        """-> (hash, shape) ; shape = ('leaf', h, v) | ('kv', h, path, sub) | ('branch', h, l, r)"""
        if len(items) == 1:
            bits, v = items[0]
            lh = self._save(b"\x02" + v)
            leaf = ("leaf", lh, v)
            if not bits:
                return lh, leaf
            h = self._save(b"\x00" + pack_path(bits) + lh)
            return h, ("kv", h, bits, leaf)
        first = items[0][0]
        shortest = min(len(b) for b, _ in items)
        lcp = 0
        while lcp < shortest and all(b[lcp] == first[lcp] for b, _ in items):
            lcp += 1
        rest = [(b[lcp:], v) for b, v in items]
        left = [(b[1:], v) for b, v in rest if b[0] == 0]
        right = [(b[1:], v) for b, v in rest if b[0] == 1]
        lh, ls = self._build(left)
        rh, rs = self._build(right)
        bh = self._save(b"\x01" + lh + rh)
        branch = ("branch", bh, ls, rs)
        if lcp == 0:
            return bh, branch
        h = self._save(b"\x00" + pack_path(first[:lcp]) + bh)
        return h, ("kv", h, first[:lcp], branch)

    def _preorder(self, shape):
        if shape is None:
            return
        self.order.append(self.bodies[shape[1]])
        if shape[0] == "kv":
            self._preorder(shape[3])
        elif shape[0] == "branch":
            self._preorder(shape[2])
            self._preorder(shape[3])

    def reachable_bodies(self):
        return set(self.bodies.values())


def resolve(root_hash, key_bits, nodes):
    """
    What a reader holding exactly `nodes` can establish for `key` under `root_hash`:
    a value (bytes), None (absent), MISSING (a hash cannot be followed) or MALFORMED.
    """
    db = {keccak(n): n for n in nodes}
    rem = tuple(key_bits)
    h = root_hash
    while True:
        if h == BLANK:
            return None
        if h not in db:
            return MISSING
        body = db[h]
        if not body:
            return MALFORMED
        t = body[0]
        if t == 2:
            if len(body) == 1:
                return MALFORMED
            return body[1:] if not rem else None
        if t == 0:
            if len(body) <= 33:
                return MALFORMED
            try:
                path = unpack_path(body[1:-32])
            except (ValueError, IndexError):
                return MALFORMED
            if not rem:
                return None
            if rem[: len(path)] == path:
                rem = rem[len(path) :]
                h = body[-32:]
                continue
            return None
        if t == 1:
            if len(body) != 65:
                return MALFORMED
            if not rem:
                return None
            h = body[1:33] if rem[0] == 0 else body[33:]
            rem = rem[1:]
            continue
        return MALFORMED
