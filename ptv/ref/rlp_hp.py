"""RLP and hex-prefix, written from the Yellow Paper (App. B, C). No import from trie/rlp."""


def rlp_encode(x):
    if isinstance(x, (bytes, bytearray)):
        x = bytes(x)
        if len(x) == 1 and x[0] < 0x80:
            return x
        return _len_prefix(len(x), 0x80) + x
    payload = b"".join(rlp_encode(i) for i in x)
    return _len_prefix(len(payload), 0xC0) + payload


def _len_prefix(n, off):
    if n < 56:
        return bytes([off + n])
    b = n.to_bytes((n.bit_length() + 7) // 8, "big")
    return bytes([off + 55 + len(b)]) + b


def rlp_decode(data):
    item, rest = _dec(bytes(data))
    if rest:
        raise ValueError("trailing bytes")
    return item


def _dec(d):
    if not d:
        raise ValueError("empty")
    b0 = d[0]
    if b0 < 0x80:
        return d[:1], d[1:]
    if b0 < 0xB8:
        n = b0 - 0x80
        return d[1 : 1 + n], d[1 + n :]
    if b0 < 0xC0:
        ll = b0 - 0xB7
        n = int.from_bytes(d[1 : 1 + ll], "big")
        return d[1 + ll : 1 + ll + n], d[1 + ll + n :]
    if b0 < 0xF8:
        n = b0 - 0xC0
        payload, rest = d[1 : 1 + n], d[1 + n :]
    else:
        ll = b0 - 0xF7
        n = int.from_bytes(d[1 : 1 + ll], "big")
        payload, rest = d[1 + ll : 1 + ll + n], d[1 + ll + n :]
    out = []
    while payload:
        item, payload = _dec(payload)
        out.append(item)
    return out, rest


def hp(nibs, term):
    """HP(x, t) of the Yellow Paper, eq. (186)-(187)."""
    nibs = tuple(nibs)
    f = 2 if term else 0
    if len(nibs) % 2:
        seq = (f + 1,) + nibs
    else:
        seq = (f, 0) + nibs
    return bytes(seq[i] * 16 + seq[i + 1] for i in range(0, len(seq), 2))


def hp_decode(b):
    """-> (nibbles, terminator flag)."""
    nibs = []
    for c in b:
        nibs += [c >> 4, c & 15]
    flag = nibs[0]
    term = bool(flag & 2)
    body = nibs[1:] if flag & 1 else nibs[2:]
    return tuple(body), term
