"""
Known answers that tie the reference models to the external specifications.
Run before every check; a failure is a harness error (exit 2), never a violation.
"""
from eth_hash.auto import keccak

from . import bintrie, mpt, rlp_hp, smt

# ethereum/tests TrieTests/trieanyorder.json (+ hex_encoded_securetrie_test "hex")
TRIE_ANY_ORDER = {
    "singleItem": (
        {b"A": b"a" * 50},
        "d23786fb4a010da3ce639d66d5e904a11dbc02746d1ce25029e53290cabf28ab",
    ),
    "dogs": (
        {b"doe": b"reindeer", b"dog": b"puppy", b"dogglesworth": b"cat"},
        "8aad789dff2f538bca5d8ea56e8abe10f4c7ba3a5dea95fea4cd6e7c3a1168d3",
    ),
    "puppy": (
        {b"do": b"verb", b"horse": b"stallion", b"doge": b"coin", b"dog": b"puppy"},
        "5991bb8c6514148a29db676a14ac506cd2cd5775ace63c30a4fe457715e9ac84",
    ),
    "foo": (
        {b"foo": b"bar", b"food": b"bass"},
        "17beaa1648bafa633cda809c90c04af50fc8aed3cb40d16efbddee6fdf63c4c3",
    ),
    "smallValues": (
        {b"be": b"e", b"dog": b"puppy", b"bed": b"d"},
        "3f67c7a47520f79faa29255d2d3c084a7a6df0453116ed7232ff10277a8be68b",
    ),
    "testy": (
        {b"test": b"test", b"te": b"testy"},
        "8452568af70d8d140f58d941338542f645fcca50094b20f3c3d8c3df49337928",
    ),
}
BLANK_ROOT_HEX = "56e81f171bcc55a6ff8345e692c0f86e5b48e01b996cadc001622fb5e363b421"

# README.md of py-trie: nodes of the binary trie {key1: value1, key2: value2}
README_BIN_BRANCH_KEY1 = (
    b"\x00\x82\x1a\xd9^L|38J\xed\xf31S\xb2\x97A\x8dy\x91RJ\x92\xf5ZC\xb4\x99T&;!\x9f\xa9!\xa2\xfe;",
    b"\x01*\xaccxH\x89\x08}\x93|\xda\xb9\r\x9b\x82\x8b\xb2Y\xbc\x10\xb9\x88\xf40\xef\xed\x8b'\x13\xbc\xa5\xccYGb\xc2\x8db\x88lPs@)\x86v\xd7B\xf7\xd3X\x93\xc9\xf0\xfd\xae\xe0`j#\x0b\xca;\xf8",
    b"\x00\x11\x8aEL3\x839E\xbd\xc4G\xd1xj\x0fxWu\xcb\xf6\xf3\xf2\x8e7!M\xca\x1c/\xd7\x7f\xed\xc6",
    b"\x02value1",
)
# trie/smt.py calc_root docstring
CALC_ROOT_DOC = b".+4IKt[\xd2\x14\xe4).\xf5\xc6\n\x11=\x01\xe89\xa1Z\x07#\xfd~(;\xfb\xb8\x8a\x0e"


def _check(cond, what):
    if not cond:
        raise AssertionError("reference self-test failed: " + what)


def run_all():
    n = 0
    # keccak + RLP anchor
    _check(keccak(b"").hex() == "c5d2460186f7233c927e7db2dcc703c0e500b653ca82273b7bfad8045d85a470", "keccak('')")
    _check(mpt.BLANK_ROOT.hex() == BLANK_ROOT_HEX, "blank root")
    _check(mpt.RefTrie({}).root_hash.hex() == BLANK_ROOT_HEX, "empty reference trie")
    n += 3
    # RLP known answers (Yellow Paper / ethereum wiki)
    _check(rlp_hp.rlp_encode(b"dog") == b"\x83dog", "rlp dog")
    _check(rlp_hp.rlp_encode([b"cat", b"dog"]) == b"\xc8\x83cat\x83dog", "rlp list")
    _check(rlp_hp.rlp_encode(b"") == b"\x80" and rlp_hp.rlp_encode([]) == b"\xc0", "rlp empty")
    _check(rlp_hp.rlp_encode(b"\x0f") == b"\x0f" and rlp_hp.rlp_encode(b"\x80") == b"\x81\x80", "rlp byte")
    lorem = b"Lorem ipsum dolor sit amet, consectetur adipisicing elit"
    _check(rlp_hp.rlp_encode(lorem) == b"\xb8\x38" + lorem, "rlp long string")
    _check(rlp_hp.rlp_decode(rlp_hp.rlp_encode([b"a", [b"bc", []], lorem])) == [b"a", [b"bc", []], lorem], "rlp round trip")
    n += 6
    # hex-prefix examples from the Ethereum wiki
    _check(rlp_hp.hp((1, 2, 3, 4, 5), False) == bytes.fromhex("112345"), "hp odd ext")
    _check(rlp_hp.hp((0, 1, 2, 3, 4, 5), False) == bytes.fromhex("00012345"), "hp even ext")
    _check(rlp_hp.hp((0, 15, 1, 12, 11, 8), True) == bytes.fromhex("200f1cb8"), "hp even leaf")
    _check(rlp_hp.hp((15, 1, 12, 11, 8), True) == bytes.fromhex("3f1cb8"), "hp odd leaf")
    _check(rlp_hp.hp_decode(bytes.fromhex("3f1cb8")) == ((15, 1, 12, 11, 8), True), "hp decode")
    n += 5
    for name, (mapping, root) in TRIE_ANY_ORDER.items():
        _check(mpt.RefTrie(mapping).root_hash.hex() == root, f"ethereum/tests {name}")
        n += 1
    # two recorded mainnet account proofs, checked with the independent resolver
    from .katdata import mainnet_proof_absent as pa
    from .katdata import mainnet_proof_exists as pe

    acct = mpt.resolve(pe.state_root, mpt.nibbles_of(pe.key), [list(x) for x in pe.proof])
    _check(isinstance(acct, bytes) and len(acct) > 60, "mainnet proof (present key)")
    fields = rlp_hp.rlp_decode(acct)
    _check(isinstance(fields, list) and len(fields) == 4 and len(fields[2]) == 32, "mainnet account rlp")
    absent = mpt.resolve(pa.state_root, mpt.nibbles_of(pa.key), [list(x) for x in pa.proof])
    _check(absent == b"", "mainnet proof (absent key)")
    _check(mpt.resolve(pe.state_root, mpt.nibbles_of(pe.key), [list(x) for x in pe.proof][1:]) is mpt.MISSING, "mainnet proof without root")
    n += 4
    # binary trie: README bytes
    rb = bintrie.RefBin({b"key1": b"value1", b"key2": b"value2"})
    for body in README_BIN_BRANCH_KEY1:
        _check(body in rb.reachable_bodies(), "README binary trie node")
    _check(rb.root_hash == keccak(README_BIN_BRANCH_KEY1[0]), "README binary root")
    _check(bintrie.resolve(rb.root_hash, bintrie.bits_of(b"key1"), README_BIN_BRANCH_KEY1) == b"value1", "binary resolver")
    _check(bintrie.RefBin({}).root_hash == keccak(b""), "binary blank")
    for nbits in range(0, 40):
        bits = tuple((i * 7 + nbits) % 3 == 0 for i in range(nbits))
        bits = tuple(int(b) for b in bits)
        _check(bintrie.unpack_path(bintrie.pack_path(bits)) == bits, "bit path packing round trip")
    n += 5
    # sparse merkle tree
    _check(smt.fold_root(b"\x02", b"", tuple([b"\x00"] * 8)) == CALC_ROOT_DOC, "calc_root docstring")
    r = smt.RefSMT(1, b"")
    m = {b"\x03": b"\x01", b"\x05": b"\x01"}
    path, sibs, root = r.path_and_siblings(m, b"\x03")
    _check(root == r.root(m), "smt path fold == recursive root")
    _check(smt.fold_root(b"\x03", b"\x01", sibs) == r.root(m), "smt verifier fold")
    _check(r.root({}) == r.defaults[0], "smt empty root")
    n += 4
    return n
