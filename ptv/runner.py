"""
Runner: seeds, worker pool, budgets, replay, evidence, exit codes.

exit 0  property held on everything explored (KNOWN-FINDING lines possible)
exit 1  "VIOLATION property=<id> replay=<path>" printed
exit 2  "HARNESS-ERROR ..." printed: the machinery failed, nothing is claimed
"""
import argparse
import importlib
import json
import multiprocessing as mp
import os
import queue as queue_mod
import sys
import time
import traceback

from .util import (
    HarnessError,
    Info,
    Violation,
    canonical,
    digest64,
    from_jsonable,
)

VERIF_DIR = os.path.dirname(os.path.dirname(os.path.abspath(__file__)))
# where replays/ and evidence/ are written (the mutation audit points this elsewhere)
OUT_DIR = os.environ.get("VERIF_OUT") or VERIF_DIR
WORKERS = {"quick": 8, "thorough": 16}
SHRINK_LIMIT_S = {"quick": 45, "thorough": 300}
BUDGET_S = {"quick": 420, "thorough": 6 * 3600}
CHUNK = 400


def prop_module(prop_id):
    return importlib.import_module(f"ptv.props.{prop_id.lower()}")


def load_known(prop_id):
    path = os.path.join(VERIF_DIR, "KNOWN_FINDINGS.json")
    with open(path) as fh:
        data = json.load(fh)
    return [k for k in data.get("known", []) if k["property"] == prop_id]


def match_known(mod, known, case, violation):
    preds = getattr(mod, "KNOWN_PREDICATES", {})
    for entry in known:
        pred = preds.get(entry["predicate"])
        if pred is not None and pred(case, violation):
            return entry
    return None


def run_one(mod, case_jsonable_text):
    """Execute one case given as canonical JSON text. Returns Info; raises Violation."""
    case = from_jsonable(json.loads(case_jsonable_text))
    info = mod.run_case(case)
    if info is None:
        info = Info()
    return info


def write_replay(path, prop_id, tier, seed, text, violation, origin):
    tmp = path + ".tmp"
    with open(tmp, "w") as fh:
        json.dump(
            {
                "property": prop_id,
                "check": violation.check,
                "message": violation.message,
                "tier": tier,
                "seed": seed,
                "origin": origin,
                "case": json.loads(text),
            },
            fh,
            indent=1,
            sort_keys=True,
        )
    os.replace(tmp, path)


class Stats:
    def __init__(self):
        self.evals = 0
        self.nontrivial = set()
        self.labels = {}
        self.counters = {}
        self.samples = []
        self.known = {}
        self.excluded_known = 0
        self.exhaustive_parts = {}
        self.budget_exhausted = False

    def add(self, text, info, max_samples=3):
        self.evals += 1
        for lab in info.labels:
            self.labels[lab] = self.labels.get(lab, 0) + 1
        for k, v in info.counters.items():
            self.counters[k] = self.counters.get(k, 0) + v
        if info.nontrivial:
            d = digest64(text)
            if d not in self.nontrivial:
                self.nontrivial.add(d)
                if len(self.samples) < max_samples and len(text) < 4000:
                    self.samples.append(json.loads(text))

    def export(self):
        return {
            "evals": self.evals,
            "nontrivial": self.nontrivial,
            "labels": self.labels,
            "counters": self.counters,
            "samples": self.samples,
            "known": self.known,
            "excluded_known": self.excluded_known,
            "exhaustive_parts": self.exhaustive_parts,
            "budget_exhausted": self.budget_exhausted,
        }


def _worker(prop_id, tier, seed, widx, nworkers, n_cases, q, replay_path, t_end, do_exh):
    try:
        _worker_inner(
            prop_id, tier, seed, widx, nworkers, n_cases, q, replay_path, t_end, do_exh
        )
    except BaseException:  # noqa: BLE001
        q.put(("error", widx, traceback.format_exc()))


def _worker_inner(
    prop_id, tier, seed, widx, nworkers, n_cases, q, replay_path, t_end, do_exh
):
    import hypothesis
    from hypothesis import HealthCheck, Phase, given, settings

    mod = prop_module(prop_id)
    known = load_known(prop_id)
    stats = Stats()
    shrink_limit = SHRINK_LIMIT_S[tier]
    st = {"best": None, "first_fail": None, "expired": False, "viol": None}

    def handle_violation(text, v, origin):
        entry = match_known(mod, known, from_jsonable(json.loads(text)), v)
        if entry is not None:
            stats.known[entry["id"]] = stats.known.get(entry["id"], 0) + 1
            stats.excluded_known += 1
            return False
        if st["best"] is None or len(text) < len(st["best"]):
            st["best"] = text
            st["viol"] = v
            write_replay(replay_path, prop_id, tier, seed, text, v, origin)
        if st["first_fail"] is None:
            st["first_fail"] = time.time()
            q.put(("violation_started", widx, replay_path))
        return True

    # ---- bounded-exhaustive parts (sharded by index) -------------------------
    if do_exh and hasattr(mod, "exhaustive"):
        for part_name, cases in mod.exhaustive(tier):
            n = 0
            mine = 0
            for idx, case in enumerate(cases):
                n += 1
                if idx % nworkers != widx:
                    continue
                mine += 1
                text = canonical(case)
                try:
                    info = run_one(mod, text)
                except Violation as v:
                    if handle_violation(text, v, f"exhaustive:{part_name}#{idx}"):
                        q.put(("violation", widx, replay_path, v.check, v.message))
                        return
                    continue
                stats.add(text, info, max_samples=1)
            stats.exhaustive_parts[part_name] = {"total": n, "this_worker": mine}

    # ---- generated search ----------------------------------------------------
    strategy = mod.strategy(tier)
    remaining = n_cases
    chunk_no = 0
    while remaining > 0 and st["best"] is None:
        if time.time() > t_end:
            stats.budget_exhausted = True
            break
        n = min(CHUNK, remaining)
        remaining -= n
        chunk_no += 1

        @hypothesis.seed((seed * 1000 + widx) * 100003 + chunk_no)
        @settings(
            max_examples=n,
            database=None,
            deadline=None,
            report_multiple_bugs=False,
            derandomize=False,
            suppress_health_check=list(HealthCheck),
            phases=[Phase.generate, Phase.shrink],
            verbosity=hypothesis.Verbosity.quiet,
        )
        @given(strategy)
        def test(case):
            if st["expired"]:
                # shrink budget used up: make every further attempt "fail" at once so
                # that the shrinker converges immediately; these are not recorded.
                raise st["viol"]
            text = canonical(case)
            try:
                info = run_one(mod, text)
            except Violation as v:
                if not handle_violation(text, v, "generated"):
                    return
                if time.time() - st["first_fail"] > shrink_limit:
                    st["expired"] = True
                raise
            if st["best"] is None:
                stats.add(text, info)

        try:
            test()
        except Violation:
            pass
        except BaseException:  # noqa: BLE001
            if st["best"] is None:
                raise
            # Flaky / StopTest etc. after a recorded violation: the recorded replay
            # is re-validated by the parent, so fall through.

    if st["best"] is not None:
        v = st["viol"]
        q.put(("violation", widx, replay_path, v.check, v.message))
    else:
        q.put(("done", widx, stats.export()))


def run_replay(prop_id, path):
    mod = prop_module(prop_id)
    with open(path) as fh:
        data = json.load(fh)
    text = json.dumps(data["case"], sort_keys=True, separators=(",", ":"))
    run_one(mod, text)


def replay_regress(prop_id, mod):
    """Committed reproductions run first, without Hypothesis in the loop."""
    d = os.path.join(VERIF_DIR, "regress", prop_id)
    n = 0
    # VERIF_NO_REGRESS=1 is for auditing the generators themselves (tools/seeded_eval.py --no-regress)
    if os.path.isdir(d) and os.environ.get("VERIF_NO_REGRESS") != "1":
        for name in sorted(os.listdir(d)):
            if not name.endswith(".json"):
                continue
            path = os.path.join(d, name)
            n += 1
            try:
                run_replay(prop_id, path)
            except Violation as v:
                return n, (path, v)
    return n, None


def write_evidence(prop_id, mod, tier, seed, agg, wall, violations, extra):
    os.makedirs(os.path.join(OUT_DIR, "evidence"), exist_ok=True)
    path = os.path.join(OUT_DIR, "evidence", f"{prop_id}.json")
    exh = agg["exhaustive_parts"]
    coverage = {
        "evaluations": agg["evals"],
        "distinct_nontrivial": len(agg["nontrivial"]),
        "rule": mod.RULE,
        "samples": agg["samples"][:5],
        "labels": dict(sorted(agg["labels"].items())),
        "counters": dict(sorted(agg["counters"].items())),
        "exhaustive_parts": exh,
        "exhaustive": False,
        "excluded_known": agg["excluded_known"],
        "known_findings_seen": agg["known"],
        "budget_exhausted": agg["budget_exhausted"],
        "workers": extra.get("workers"),
        "generated_cases_requested": extra.get("n_cases"),
        "regress_replayed": extra.get("regress"),
        "self_test": extra.get("self_test"),
    }
    if extra.get("atheris"):
        coverage["atheris"] = extra["atheris"]
    ev = {
        "property_id": prop_id,
        "tier": tier,
        "seed": seed,
        "level": mod.LEVEL,
        "coverage": coverage,
        "assumptions": list(getattr(mod, "ASSUMPTIONS", []))
        + [
            "keccak-256 (eth_hash) is trusted and collision-free on generated data",
            "CPython and Hypothesis behave as documented",
            "verdict covers only what was generated / enumerated (see labels)",
        ],
        "wall_s": round(wall, 2),
        "violations": violations,
    }
    tmp = path + ".tmp"
    with open(tmp, "w") as fh:
        json.dump(ev, fh, indent=1, sort_keys=True)
    os.replace(tmp, path)
    return path


def run_atheris(prop_id, mod, tier, seed, t_end):
    """
    Thorough tier, second engine: N atheris processes (coverage-guided, empty corpus,
    distinct -seed) over the same strategy/run_case. Returns (summary, replay or None).
    """
    import shutil
    import subprocess

    deps = os.path.join(VERIF_DIR, ".deps")
    probe = [sys.executable, "-c", f"import sys; sys.path.append({deps!r}); import atheris"]
    if subprocess.run(probe, capture_output=True).returncode != 0:
        os.makedirs(deps, exist_ok=True)
        subprocess.run([sys.executable, "-m", "pip", "install", "--quiet", "--no-index", "--find-links",
                        "/opt/veriftools/wheels", "--target", deps, "atheris"], capture_output=True)
        if subprocess.run(probe, capture_output=True).returncode != 0:
            # the second engine is a second opinion: its absence does not void the primary result
            return {"engine": "atheris", "skipped": "atheris is not importable and could not be installed offline"}, None
    nproc = int(os.environ.get("VERIF_ATHERIS_PROCS", "4"))
    runs = int(os.environ.get("VERIF_ATHERIS_RUNS", getattr(mod, "ATHERIS_RUNS", 40000)))
    max_time = max(30, int(min(t_end - time.time(), int(os.environ.get("VERIF_ATHERIS_TIME", "900")))))
    work = os.path.join(OUT_DIR, ".work", "fz")
    os.makedirs(work, exist_ok=True)
    procs = []
    for i in range(nproc):
        corpus = os.path.join(work, f"{prop_id}-{i}")
        shutil.rmtree(corpus, ignore_errors=True)
        os.makedirs(corpus)
        stats = os.path.join(work, f"{prop_id}-{i}.stats.json")
        replay = os.path.join(OUT_DIR, "replays", f"{prop_id}-atheris-s{seed}-{i}.json")
        for f in (stats, replay):
            if os.path.exists(f):
                os.remove(f)
        cmd = [sys.executable, os.path.join(VERIF_DIR, "ptv", "fuzz_target.py"), prop_id, tier, stats,
               replay, f"-runs={runs}", f"-seed={seed * 16 + i + 1}", f"-max_total_time={max_time}",
               f"-artifact_prefix={corpus}/", "-print_final_stats=1", corpus]
        log = open(os.path.join(work, f"{prop_id}-{i}.log"), "w")
        procs.append((subprocess.Popen(cmd, stdout=log, stderr=subprocess.STDOUT, cwd=VERIF_DIR), stats, replay, corpus, log))
    summary = {"engine": "atheris/libFuzzer via hypothesis.fuzz_one_input, py-trie instrumented",
               "processes": nproc, "runs_requested_each": runs, "corpus": "empty", "executions": 0,
               "distinct_nontrivial_sum": 0, "exit_codes": [], "corpus_entries": 0}
    failing = None
    for p, stats, replay, corpus, log in procs:
        try:
            rc = p.wait(timeout=max_time + 120)
        except subprocess.TimeoutExpired:
            p.kill()
            rc = -9
        log.close()
        summary["exit_codes"].append(rc)
        if os.path.exists(stats):
            sj = json.load(open(stats))
            summary["executions"] += sj["executions"]
            summary["distinct_nontrivial_sum"] += sj["distinct_nontrivial"]
        summary["corpus_entries"] += len([f for f in os.listdir(corpus) if not f.startswith("crash-")])
        if os.path.exists(replay) and failing is None:
            failing = replay
        shutil.rmtree(corpus, ignore_errors=True)
    return summary, failing


def main(argv=None):
    ap = argparse.ArgumentParser()
    ap.add_argument("prop")
    ap.add_argument("--tier", choices=["quick", "thorough"])
    ap.add_argument("--replay")
    ap.add_argument("--cases", type=int)
    ap.add_argument("--workers", type=int)
    ap.add_argument("--no-exhaustive", action="store_true")
    args = ap.parse_args(argv)

    prop_id = args.prop.upper()
    tier = args.tier or os.environ.get("VERIF_TIER") or "quick"
    if tier not in ("quick", "thorough"):
        tier = "quick"
    try:
        seed = int(os.environ.get("VERIF_SEED", "1"))
    except ValueError:
        seed = 1
    t0 = time.time()

    try:
        import trie

        repo = os.path.realpath(os.environ.get("VERIF_REPO", "/repo"))
        if not os.path.realpath(trie.__file__).startswith(repo + os.sep):
            raise HarnessError(f"trie imported from {trie.__file__}, expected under {repo}")
        mod = prop_module(prop_id)
        from .ref import kat

        self_test = kat.run_all()
        if hasattr(mod, "self_test"):
            self_test += mod.self_test()
    except Exception:  # noqa: BLE001
        print("HARNESS-ERROR during bootstrap/self-test:\n" + traceback.format_exc())
        return 2

    if args.replay:
        try:
            run_replay(prop_id, args.replay)
        except Violation as v:
            print(f"replay fails: {v}")
            print(f"VIOLATION property={prop_id} replay={os.path.abspath(args.replay)}")
            return 1
        except Exception:  # noqa: BLE001
            print("HARNESS-ERROR during replay:\n" + traceback.format_exc())
            return 2
        print(f"replay passes: {args.replay}")
        return 0

    os.makedirs(os.path.join(OUT_DIR, "replays"), exist_ok=True)

    # (2) replay tier
    try:
        n_regress, failed = replay_regress(prop_id, mod)
    except Exception:  # noqa: BLE001
        print("HARNESS-ERROR during regress replay:\n" + traceback.format_exc())
        return 2
    if failed is not None:
        path, v = failed
        print(f"regression case fails: {v}")
        agg = Stats().export()
        agg["evals"] = n_regress
        write_evidence(prop_id, mod, tier, seed, agg, time.time() - t0, 1,
                       {"regress": n_regress, "self_test": self_test})
        print(f"VIOLATION property={prop_id} replay={path}")
        return 1

    nworkers = args.workers or int(os.environ.get("VERIF_WORKERS", WORKERS[tier]))
    n_cases = args.cases or int(os.environ.get("VERIF_CASES", mod.BUDGET[tier]))
    budget = float(os.environ.get("VERIF_BUDGET_S", BUDGET_S[tier]))
    t_end = t0 + budget
    per_worker = (n_cases + nworkers - 1) // nworkers

    ctx = mp.get_context("fork")
    q = ctx.Queue()
    procs = []
    for w in range(nworkers):
        rp = os.path.join(OUT_DIR, "replays", f"{prop_id}-{tier}-s{seed}-w{w}.json")
        if os.path.exists(rp):
            os.remove(rp)
        p = ctx.Process(
            target=_worker,
            args=(prop_id, tier, seed, w, nworkers, per_worker, q, rp, t_end,
                  not args.no_exhaustive),
        )
        p.daemon = True
        p.start()
        procs.append(p)

    agg = Stats().export()
    pending = set(range(nworkers))
    violation = None  # (widx, replay_path, check, message)
    started = None  # (widx, replay_path, t)
    error = None
    while pending:
        try:
            msg = q.get(timeout=1.0)
        except queue_mod.Empty:
            if started is not None and time.time() - started[2] > SHRINK_LIMIT_S[tier] + 60:
                break  # shrinker did not stop in time; use the replay on disk
            if all(not p.is_alive() for p in procs) and q.empty():
                dead = [w for w in pending]
                if dead and started is None:
                    error = f"workers {dead} died without reporting"
                break
            continue
        kind = msg[0]
        if kind == "done":
            pending.discard(msg[1])
            s = msg[2]
            agg["evals"] += s["evals"]
            agg["nontrivial"] |= s["nontrivial"]
            for k, v in s["labels"].items():
                agg["labels"][k] = agg["labels"].get(k, 0) + v
            for k, v in s["counters"].items():
                agg["counters"][k] = agg["counters"].get(k, 0) + v
            agg["samples"] += s["samples"]
            for k, v in s["known"].items():
                agg["known"][k] = agg["known"].get(k, 0) + v
            agg["excluded_known"] += s["excluded_known"]
            for k, v in s["exhaustive_parts"].items():
                cur = agg["exhaustive_parts"].setdefault(k, {"total": v["total"], "executed": 0})
                cur["executed"] += v["this_worker"]
            agg["budget_exhausted"] = agg["budget_exhausted"] or s["budget_exhausted"]
        elif kind == "violation_started":
            if started is None:
                started = (msg[1], msg[2], time.time())
                for i, p in enumerate(procs):
                    if i != msg[1] and p.is_alive():
                        p.terminate()
                pending = {msg[1]}
        elif kind == "violation":
            if started is None or msg[1] == started[0]:
                violation = msg[1:]
                break
        elif kind == "error":
            error = msg[2]
            break
    for p in procs:
        if p.is_alive():
            p.terminate()
    for p in procs:
        p.join(timeout=5)
    keep = (violation[1] if violation is not None else started[1] if started else None)
    for w in range(nworkers):
        rp = os.path.join(OUT_DIR, "replays", f"{prop_id}-{tier}-s{seed}-w{w}.json")
        if rp != keep and os.path.exists(rp):
            os.remove(rp)

    wall = time.time() - t0
    extra = {"workers": nworkers, "n_cases": n_cases, "regress": n_regress,
             "self_test": self_test}

    if error is not None and started is None:
        print("HARNESS-ERROR in worker:\n" + str(error))
        return 2

    if violation is not None or started is not None:
        rp = violation[1] if violation is not None else started[1]
        if not os.path.exists(rp):
            print("HARNESS-ERROR: violation reported but no replay file was written")
            return 2
        # re-validate outside Hypothesis: the replay must fail deterministically
        try:
            run_replay(prop_id, rp)
        except Violation as v:
            final = os.path.join(
                OUT_DIR, "replays", f"{prop_id}-{digest64(open(rp).read()):016x}.json"
            )
            os.replace(rp, final)
            print(f"violation: {v}")
            agg["samples"] = [json.load(open(final))["case"]] + agg["samples"]
            agg["evals"] = max(agg["evals"], 1)
            write_evidence(prop_id, mod, tier, seed, agg, wall, 1, extra)
            print(f"VIOLATION property={prop_id} replay={final}")
            return 1
        except Exception:  # noqa: BLE001
            print("HARNESS-ERROR re-running replay:\n" + traceback.format_exc())
            return 2
        print(f"HARNESS-ERROR: recorded failing case {rp} passes when replayed (flaky)")
        return 2

    # the parts of the domain that were enumerated completely
    for name, part in agg["exhaustive_parts"].items():
        part["complete"] = part["executed"] == part["total"]
    for entry_id, n in sorted(agg["known"].items()):
        desc = next((k["what"] for k in load_known(prop_id) if k["id"] == entry_id), "")
        print(f"KNOWN-FINDING: property={prop_id} {entry_id} {desc} (seen {n}x)")

    if agg["evals"] == 0:
        print("HARNESS-ERROR: no case was executed")
        return 2
    if tier == "thorough" and getattr(mod, "ATHERIS", False) and os.environ.get("VERIF_NO_ATHERIS") != "1":
        try:
            summary, failing = run_atheris(prop_id, mod, tier, seed, t_end)
        except Exception:  # noqa: BLE001
            print("HARNESS-ERROR in the atheris stage:\n" + traceback.format_exc())
            return 2
        extra["atheris"] = summary
        wall = time.time() - t0
        if failing is not None:
            try:
                run_replay(prop_id, failing)
            except Violation as v:
                print(f"violation (atheris): {v}")
                agg["samples"] = [json.load(open(failing))["case"]] + agg["samples"]
                write_evidence(prop_id, mod, tier, seed, agg, wall, 1, extra)
                print(f"VIOLATION property={prop_id} replay={failing}")
                return 1
            print(f"HARNESS-ERROR: atheris recorded {failing} but it passes when replayed (flaky)")
            return 2
        if any(rc != 0 for rc in summary.get("exit_codes", [])):
            print(f"HARNESS-ERROR: an atheris process failed without a violation: {summary['exit_codes']}")
            return 2
    path = write_evidence(prop_id, mod, tier, seed, agg, wall, 0, extra)
    top = sorted(agg["labels"].items(), key=lambda kv: -kv[1])[:8]
    print(
        f"OK property={prop_id} tier={tier} seed={seed} evaluations={agg['evals']} "
        f"distinct_nontrivial={len(agg['nontrivial'])} wall={wall:.1f}s "
        f"budget_exhausted={agg['budget_exhausted']} evidence={path}"
    )
    try:
        print("labels: " + ", ".join(f"{k}={v}" for k, v in top))
        sys.stdout.flush()
    except BrokenPipeError:  # the reader closed the pipe after the OK line: still a pass
        try:
            sys.stdout = open(os.devnull, "w")
        except OSError:
            pass
    return 0
