"""Fault-injecting node databases (dict subclasses passed as db=)."""
from eth_hash.auto import keccak


class InjectedFault(Exception):
    """A database write failed because the harness said so."""


class InjectedKeyError(KeyError):
    """The database refused the write with a KeyError (some mapping back-ends do)."""


class InjectedOSError(OSError):
    """The database refused the write with an OSError (disk full, connection lost ...)."""


FAULTS = (InjectedFault, InjectedKeyError, InjectedOSError)


class FaultDB(dict):
    """Counts writes; when armed with n, the n-th write from now on (0-based) fails."""

    def __init__(self, *a, **kw):
        super().__init__(*a, **kw)
        self.writes = 0
        self.deletes = 0
        self.armed = None
        self.reads = 0
        self.fault_kind = 0

    def arm(self, n, kind=None):
        self.armed = n
        self.writes = 0
        if kind is not None:
            self.fault_kind = kind

    def _fault(self):
        return FAULTS[self.fault_kind % 3](f"write #{self.armed} failed")

    def disarm(self):
        self.armed = None

    def __setitem__(self, key, value):
        if self.armed is not None and self.writes == self.armed:
            self.writes += 1
            raise self._fault()
        self.writes += 1
        super().__setitem__(key, value)

    def __delitem__(self, key):
        self.deletes += 1
        super().__delitem__(key)

    def pop(self, *args):
        self.deletes += 1
        return super().pop(*args)

    def __getitem__(self, key):
        self.reads += 1
        return super().__getitem__(key)


class HookDB(dict):
    """
    A database that calls back into user code from inside a read or a write (an index, a
    metrics hook, a lazy loader ...): `hook(kind, key)` runs at the n-th access, once.
    """

    def __init__(self, *a, **kw):
        super().__init__(*a, **kw)
        self.hook = None
        self.countdown = None
        self.kinds = ("read", "write")

    def arm(self, hook, n, kinds=("read", "write")):
        self.hook, self.countdown, self.kinds = hook, n, kinds

    def _tick(self, kind, key):
        if self.hook is not None and kind in self.kinds:
            if self.countdown <= 0:
                hook, self.hook = self.hook, None
                hook(kind, key)
            else:
                self.countdown -= 1

    def __getitem__(self, key):
        self._tick("read", key)
        return super().__getitem__(key)

    def __setitem__(self, key, value):
        self._tick("write", key)
        super().__setitem__(key, value)


class WriteThroughDB(dict):
    """
    A dict subclass whose item methods are the real interface: writes are forwarded to a
    backing store and reads are served from it (a journaling / write-through mapping).
    Code that bypasses __setitem__ (dict.update on the instance, ...) never reaches the store.
    """

    def __init__(self):
        super().__init__()
        self.backing = {}

    def __setitem__(self, key, value):
        self.backing[key] = value
        super().__setitem__(key, value)

    def __getitem__(self, key):
        return self.backing[key]

    def __contains__(self, key):
        return key in self.backing

    def __delitem__(self, key):
        del self.backing[key]
        super().__delitem__(key)

    def pop(self, key, *default):
        super().pop(key, None)
        return self.backing.pop(key, *default)

    def get(self, key, default=None):
        return self.backing.get(key, default)

    def keys(self):
        return self.backing.keys()

    def items(self):
        return self.backing.items()

    def __iter__(self):
        return iter(self.backing)

    def __len__(self):
        return len(self.backing)

    def __eq__(self, other):
        return self.backing == other

    __hash__ = None

    def copy(self):
        return dict(self.backing)


class GuardViolation(Exception):
    pass


class AppendOnlyGuardDB(FaultDB):
    """
    Records every breach of "content-addressed, append-only": a write whose key is not
    keccak(value), an overwrite with a different value, any delete/pop.
    Breaches are recorded (not raised) so that the code under test cannot swallow them.
    """

    def __init__(self, *a, **kw):
        super().__init__(*a, **kw)
        self.breaches = []

    def __setitem__(self, key, value):
        if self.armed is not None and self.writes == self.armed:
            self.writes += 1
            raise self._fault()
        if not isinstance(key, bytes) or not isinstance(value, bytes) or keccak(value) != key:
            self.breaches.append(f"write not content-addressed: key={key!r}")
        elif dict.__contains__(self, key) and dict.__getitem__(self, key) != value:
            self.breaches.append(f"existing entry overwritten with a different value: {key!r}")
        self.writes += 1
        dict.__setitem__(self, key, value)

    def __delitem__(self, key):
        self.breaches.append(f"entry deleted: {key!r}")
        dict.__delitem__(self, key)

    def pop(self, key, *default):
        if dict.__contains__(self, key):
            self.breaches.append(f"entry popped: {key!r}")
        return dict.pop(self, key, *default)

    def clear(self):
        self.breaches.append("db cleared")
        dict.clear(self)

    def update(self, *a, **kw):
        for k, v in dict(*a, **kw).items():
            self[k] = v

    def setdefault(self, key, default=None):
        if not dict.__contains__(self, key):
            self[key] = default
        return dict.__getitem__(self, key)


class LossyDB(dict):
    """Hides a chosen set of keys (reads raise KeyError, `in` is False); counts reads."""

    def __init__(self, full, hidden=()):
        super().__init__(full)
        self.hidden = set(hidden)
        self.reads = 0

    def reveal(self, key):
        self.hidden.discard(key)

    def __getitem__(self, key):
        self.reads += 1
        if key in self.hidden:
            hook = getattr(self, "on_miss", None)
            if hook is not None:
                self.on_miss = None
                hook(key)  # a database that calls back into user code on a miss
            raise KeyError(key)
        return super().__getitem__(key)

    def __contains__(self, key):
        if key in self.hidden:
            return False
        return super().__contains__(key)

    def get(self, key, default=None):
        if key in self.hidden:
            return default
        return super().get(key, default)

    def __delitem__(self, key):
        if key in self.hidden:
            raise KeyError(key)
        super().__delitem__(key)

    def pop(self, key, *default):
        if key in self.hidden:
            if default:
                return default[0]
            raise KeyError(key)
        return super().pop(key, *default)

    def visible(self):
        return {k: v for k, v in dict.items(self) if k not in self.hidden}
