"""
Deep tries: a chain of nested prefix keys (key i is a proper prefix of key i+1), 200 levels
deep or as deep as `set` itself can build under the interpreter's recursion limit, whichever
is less.  Whatever is built must be readable, provable, traversable and deletable.

Why 200 and not "as deep as set() goes": on the unchanged tree set() is the operation that
needs the most stack per level and gives up at about 247 levels from a shallow stack, so
every other operation has head-room on anything set() built.  A behaviour-preserving change
that makes set() iterative lets the chain grow beyond what the (still recursive) delete can
handle - a resource limit the properties do not speak about, and no history that worked
before stops working.  With the cap, an operation only fails here if it needs clearly more
stack per level than the unchanged tree does at a depth the unchanged tree handles.
"""
from trie import HexaryTrie

from .util import impl


def build_chain(limit=200, fan=False, prune=False):
    """-> (trie, model, keys): keys[i] = i+1 bytes; stops quietly where set() itself gives up."""
    t = impl("construct", HexaryTrie, {}, prune=prune)
    model, keys = {}, []
    key = b""
    for i in range(limit):
        key = key + bytes([(i * 37 + 11) % 256])
        val = bytes([i % 251 + 1]) * (1 + (i % 3) * 20)
        try:
            t.set(key, val)
        except RecursionError:
            break  # the write path's own resource limit: not part of any claim
        model[key] = val
        keys.append(key)
        if fan and i % 16 == 5:
            side = key[:-1] + bytes([key[-1] ^ 0x10])
            try:
                t.set(side, b"side" * 9)
            except RecursionError:
                break
            model[side] = b"side" * 9
    return t, model, keys
