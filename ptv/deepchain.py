"""
Deep tries: a chain of nested prefix keys (key i is a proper prefix of key i+1), pushed as
deep as `set` itself can build under the interpreter's recursion limit.  Whatever set() can
build must be readable: lookups, proofs and traversals of such a trie must not fail where
the write path succeeded (metamorphic relation, no absolute depth is assumed).
"""
from trie import HexaryTrie

from .util import impl


def build_chain(limit=260, fan=False, prune=False):
    """-> (trie, model, keys): keys[i] = i+1 bytes; stops quietly where set() itself gives up."""
    t = impl("construct", HexaryTrie, {}, prune=prune)
    model, keys = {}, []
    key = b""
    for i in range(limit):
        key = key + bytes([(i * 37 + 11) % 256])
        val = bytes([i % 251 + 1]) * (1 + (i % 3) * 20)
        try:
            t.set(key, val)
        except RecursionError:
            break  # the write path's own resource limit: not part of any claim
        model[key] = val
        keys.append(key)
        if fan and i % 16 == 5:
            side = key[:-1] + bytes([key[-1] ^ 0x10])
            try:
                t.set(side, b"side" * 9)
            except RecursionError:
                break
            model[side] = b"side" * 9
    return t, model, keys
