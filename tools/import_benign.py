#!/usr/bin/env python3
"""import_benign.py CNN... : copy /tmp/ben_out/CNN/{seed_X.diff,equiv_X.py,NOTES.md} to /verif/benign/CNN-X/."""
import json, os, shutil, sys
for pid in sys.argv[1:]:
    src = f"/tmp/ben_out/{pid}"
    for x in "AB":
        d = f"{src}/seed_{x}.diff"
        if not os.path.exists(d):
            print("missing", d); continue
        dst = f"/verif/benign/{pid}-{x}"
        os.makedirs(dst, exist_ok=True)
        shutil.copy(d, f"{dst}/patch.diff")
        if os.path.exists(f"{src}/equiv_{x}.py"):
            shutil.copy(f"{src}/equiv_{x}.py", f"{dst}/equiv.py")
        if os.path.exists(f"{src}/NOTES.md"):
            shutil.copy(f"{src}/NOTES.md", f"{dst}/NOTES.md")
        meta = {"name": f"{pid}-{x}", "property": pid, "kind": "behaviour-preserving change (the property still holds)",
                "origin": "written by an independent sub-agent that saw only the property text and its own scratch worktree of /repo (nothing from /verif); asked for a substantial refactoring / optimisation that keeps the property and all public behaviour",
                "files_changed": sorted({l[6:].strip() for l in open(d) if l.startswith("+++ b/")})}
        json.dump(meta, open(f"{dst}/meta.json", "w"), indent=1)
        print("imported", dst)
