#!/usr/bin/env python3
"""Validate MANIFEST.json and every evidence/*.json against the schemas (run with python3-vt)."""
import glob, json, sys
import jsonschema
ok = True
m = json.load(open("/verif/MANIFEST.json"))
try:
    jsonschema.validate(m, json.load(open("/root/.vp/MANIFEST.schema.json")))
    print("MANIFEST ok:", len(m["checks"]), "checks;", len(m.get("not_applicable", [])), "not_applicable")
except jsonschema.ValidationError as e:
    ok = False; print("MANIFEST INVALID:", e.message)
props = {json.loads(l)["id"] for l in open("/verif/properties.jsonl")}
claimed = {c["property_id"] for c in m["checks"]}
na = {c["property_id"] for c in m.get("not_applicable", [])}
if claimed | na != props or claimed & na:
    ok = False; print("property coverage mismatch:", sorted(props - claimed - na), sorted(claimed & na))
es = json.load(open("/root/.vp/EVIDENCE.schema.json"))
for f in sorted(glob.glob("/verif/evidence/*.json")):
    try:
        jsonschema.validate(json.load(open(f)), es); print("evidence ok:", f)
    except jsonschema.ValidationError as e:
        ok = False; print("evidence INVALID:", f, e.message)
sys.exit(0 if ok else 1)
