#!/usr/bin/env python3
"""
Systematic first-order mutation campaign: regex operators applied line by line to the
library sources; each mutant that still imports is run against the checks of the
properties anchored in that file (reduced case budget first, survivors again at the full
quick budget).  Scratch copies under /tmp, removed at once.

  mutgen.py [files...] [--jobs 3] [--limit N] [--cases 1500]
Results: /verif/audit/mutgen_<file>.json (documentation only).
"""
import argparse, ast, json, os, re, sys
from concurrent.futures import ThreadPoolExecutor
from types import SimpleNamespace

HERE = os.path.dirname(os.path.dirname(os.path.abspath(__file__)))
sys.path.insert(0, os.path.join(HERE, "tools"))
import mutation_audit  # noqa: E402

PROPS = {
    "hexary.py": ["C01", "C02", "C06", "C05", "C03", "C07", "C08", "C04", "C09", "C10", "C18"],
    "utils/nodes.py": ["C16", "C02", "C08", "C12", "C13", "C01"],
    "utils/nibbles.py": ["C16", "C02", "C11"],
    "utils/binaries.py": ["C16", "C12"],
    "utils/db.py": ["C17", "C05", "C06"],
    "fog.py": ["C11", "C09", "C10"],
    "iter.py": ["C10"],
    "binary.py": ["C12", "C13", "C18"],
    "branches.py": ["C13", "C18"],
    "smt.py": ["C14", "C15", "C18"],
    "validation.py": ["C18", "C01", "C12", "C14"],
    "typing.py": ["C18", "C08", "C11"],
    "exceptions.py": ["C08", "C09", "C07"],
}
OPS = [
    (r"(?<![<>=!])<(?![<=])", "<="), (r"<=", "<"), (r"(?<![<>=!-])>(?![>=])", ">="), (r">=", ">"),
    (r"==", "!="), (r"!=", "=="), (r"\band\b", "or"), (r"\bor\b", "and"),
    (r"\bnot ", ""), (r"\+ 1\b", "+ 0"), (r"\+ 1\b", "+ 2"), (r"- 1\b", "- 0"),
    (r"\[1:\]", "[0:]"), (r"\[:-1\]", "[:]"), (r"\[1\]", "[0]"), (r"\[0\]", "[1]"), (r"\[-1\]", "[0]"),
    (r"\bTrue\b", "False"), (r"\bFalse\b", "True"), (r"\bis not\b", "is"),
    (r"\bif (.+):$", r"if not (\1):"),
    (r"^(\s*)self\._prune_node\((.*)\)$", r"\1pass"),
    (r"^(\s*)(self\.[a-z_]+\[.*\] \+= 1)$", r"\1pass"),
    (r"\b16\b", "15"), (r"\b32\b", "33"), (r"\b32\b", "31"), (r"\b17\b", "16"),
    (r"% 2\b", "% 3"), (r"\b0x0?F\b", "0xE"),
    (r"^(\s*)return (.+)$", r"\1return None"),
    (r"^(\s*)continue$", r"\1pass"), (r"^(\s*)break$", r"\1pass"),
    (r"reversed\((.+?)\)", r"\1"), (r"\bmin\(", "max("), (r"\.remove\(", ".discard("),
    (r"^(\s*)validate_[a-z_]+\((.*)\)$", r"\1pass"),
    (r"\.copy\(\)", ""),
]


def gen(file):
    lines = open(os.path.join("/repo/trie", file)).read().split("\n")
    out, indoc = [], False
    for i, l in enumerate(lines):
        st = l.strip()
        if st.count('"""') % 2 == 1:
            indoc = not indoc
            continue
        if indoc or not st or st.startswith(("#", "import", "from", "raise", '"', 'f"', "'", ")", "def ", "class ", "@")):
            continue
        if "Invariant" in l or "Exception(" in l:
            continue
        code = l.split("  #")[0]
        for oi, (pat, rep) in enumerate(OPS):
            for mnum, mt in enumerate(re.finditer(pat, code)):
                if "\\" in rep:
                    new = re.sub(pat, rep, code, count=1) if mnum == 0 else None
                else:
                    new = code[: mt.start()] + rep + code[mt.end():]
                if not new or new == code:
                    continue
                ml = list(lines)
                ml[i] = new
                src = "\n".join(ml)
                try:
                    ast.parse(src)
                except SyntaxError:
                    continue
                out.append({"id": f"{file}:{i + 1}:op{oi}.{mnum}", "file": file, "props": PROPS[file],
                            "src": src, "line": i + 1, "old_line": code.strip(), "new_line": new.strip()})
    return out


def main():
    ap = argparse.ArgumentParser()
    ap.add_argument("files", nargs="*")
    ap.add_argument("--jobs", type=int, default=3)
    ap.add_argument("--limit", type=int)
    ap.add_argument("--cases", type=int, default=1500)
    ap.add_argument("--survivors-of", help="directory with earlier mutgen_*.json: re-run only the mutants not killed there")
    a = ap.parse_args()
    for file in a.files or list(PROPS):
        muts = gen(file)
        if a.survivors_of:
            prev = os.path.join(a.survivors_of, "mutgen_" + file.replace("/", "-") + ".json")
            if not os.path.exists(prev):
                continue
            keep = {r["id"] for r in json.load(open(prev))["results"] if r["status"] != "killed"}
            muts = [m for m in muts if m["id"] in keep]
        if a.limit:
            muts = muts[:: max(1, len(muts) // a.limit)][: a.limit]
        print(f"== {file}: {len(muts)} mutants", flush=True)
        args = SimpleNamespace(repo="/repo", tests=False, props=None, tier="quick", seed=1,
                               all_props=False, save_regress=False, cases=a.cases)
        results = []

        def one(m):
            r = mutation_audit.run_mutant(m, args)
            if r["status"] == "SURVIVED":
                full = SimpleNamespace(**{**vars(args), "cases": None})
                r2 = mutation_audit.run_mutant(m, full)
                r2["first_pass"] = "survived reduced budget"
                r = r2
            r.update(line=m["line"], old_line=m["old_line"], new_line=m["new_line"])
            return r

        with ThreadPoolExecutor(a.jobs) as ex:
            for r in ex.map(one, muts):
                results.append(r)
                if r["status"] != "killed":
                    print(f"{r['status']:10s} {r['id']:30s} | {r['old_line'][:60]}  ==>  {r['new_line'][:60]}", flush=True)
        k = sum(r["status"] == "killed" for r in results)
        print(f"TOTAL {file}: {len(results)} mutants, {k} killed, {len(results) - k} not killed", flush=True)
        os.makedirs(os.path.join(HERE, "audit"), exist_ok=True)
        name = "mutgen_" + file.replace("/", "-") + (".rerun" if a.survivors_of else "") + ".json"
        json.dump({"file": file, "total": len(results), "killed": k, "results": results},
                  open(os.path.join(HERE, "audit", name), "w"), indent=1)


if __name__ == "__main__":
    main()
