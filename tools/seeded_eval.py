#!/usr/bin/env python3
"""
Seeded breaking changes (/verif/seeded/<name>/{patch.diff, demo.py, meta.json}).

  seeded_eval.py verify <name>...   confirm on scratch copies of /repo: the patch applies, the pinned
                                    baseline still passes with it, the demo fails with it and passes without
  seeded_eval.py run [<name>...] [--all-props] [--tier quick]
                                    run the checks of the targeted property (or all) against each change
Scratch copies live under /tmp and are removed at once. Results: /verif/seeded/RESULTS.json
"""
import argparse, json, os, re, shutil, subprocess, sys, tempfile, time

HERE = os.path.dirname(os.path.dirname(os.path.abspath(__file__)))
SEEDED = os.path.join(HERE, "seeded")
RESULTS_NAME = "RESULTS.json"


def scratch_copy(patch=None):
    d = tempfile.mkdtemp(prefix="ptvseed_", dir="/tmp")
    repo = os.path.join(d, "repo")
    shutil.copytree("/repo", repo, ignore=shutil.ignore_patterns(".git", "__pycache__", "*.egg-info"))
    if patch:
        r = subprocess.run(["patch", "-p1", "--no-backup-if-mismatch", "-i", patch], cwd=repo, capture_output=True, text=True)
        if r.returncode != 0:
            shutil.rmtree(d)
            raise RuntimeError("patch does not apply: " + r.stdout + r.stderr)
    return d, repo


def verify(name):
    sd = os.path.join(SEEDED, name)
    meta_path = os.path.join(sd, "meta.json")
    meta = json.load(open(meta_path))
    patch, demo = os.path.join(sd, "patch.diff"), os.path.join(sd, "demo.py")
    out = {}
    d, repo = scratch_copy(patch)
    try:
        r = subprocess.run([sys.executable, os.path.join(HERE, "tools", "run_baseline.py"), repo], capture_output=True, text=True)
        out["baseline_with_patch"] = r.stdout.strip().splitlines()[0] if r.stdout else r.stderr[-200:]
        out["baseline_passes"] = r.returncode == 0
        if r.returncode != 0:
            out["baseline_not_passed"] = [l.strip() for l in r.stdout.splitlines()[1:6]]
        r = subprocess.run(["/venv/bin/python", demo], cwd=d, env=dict(os.environ, PYTHONPATH=repo), capture_output=True, text=True)
        out["demo_exit_with_patch"] = r.returncode
    finally:
        shutil.rmtree(d, ignore_errors=True)
    d, repo = scratch_copy(None)
    try:
        r = subprocess.run(["/venv/bin/python", demo], cwd=d, env=dict(os.environ, PYTHONPATH=repo), capture_output=True, text=True)
        out["demo_exit_without_patch"] = r.returncode
    finally:
        shutil.rmtree(d, ignore_errors=True)
    out["confirmed"] = bool(out["baseline_passes"] and out["demo_exit_with_patch"] != 0 and out["demo_exit_without_patch"] == 0)
    meta["confirmation"] = out
    json.dump(meta, open(meta_path, "w"), indent=1)
    print(name, json.dumps(out))
    return out["confirmed"]


def run(names, all_props, tier, seed, save_regress=False, no_regress=False):
    props = [json.loads(l)["id"] for l in open(os.path.join(HERE, "properties.jsonl"))]
    res_path = os.path.join(SEEDED, RESULTS_NAME)
    results = json.load(open(res_path)) if os.path.exists(res_path) else {}
    for name in names:
        sd = os.path.join(SEEDED, name)
        meta = json.load(open(os.path.join(sd, "meta.json")))
        d, repo = scratch_copy(os.path.join(sd, "patch.diff"))
        entry = results.setdefault(name, {"property": meta["property"], "checks": {}})
        try:
            order = [meta["property"]] + ([p for p in props if p != meta["property"]] if all_props else [])
            for prop in order:
                out = os.path.join(d, "out-" + prop)
                os.makedirs(out, exist_ok=True)
                t = time.time()
                r = subprocess.run([os.path.join(HERE, "check.py"), prop, "--tier", tier], cwd=HERE,
                                   env=dict(os.environ, VERIF_REPO=repo, VERIF_OUT=out, VERIF_SEED=str(seed),
                                            **({"VERIF_NO_REGRESS": "1"} if no_regress else {})),
                                   capture_output=True, text=True)
                v = [l for l in r.stdout.splitlines() if l.startswith(("violation:", "regression case fails:"))]
                entry["checks"][prop] = {"exit": r.returncode, "secs": round(time.time() - t, 1), "tier": tier,
                                         "seed": seed, "violation": v[0][:300] if v else ""}
                if r.returncode == 2:
                    entry["checks"][prop]["harness_error"] = r.stdout[-500:]
                mt = re.search(r"VIOLATION property=(\S+) replay=(\S+)", r.stdout)
                if save_regress and r.returncode == 1 and mt:
                    rp = mt.group(2)
                    r3 = subprocess.run([os.path.join(HERE, "check.py"), prop, "--replay", rp], cwd=HERE,
                                        env=dict(os.environ, VERIF_OUT=out), capture_output=True, text=True)
                    if r3.returncode == 0:
                        dst = os.path.join(HERE, "regress", prop)
                        os.makedirs(dst, exist_ok=True)
                        data = json.load(open(rp))
                        data["origin"] = f"seeded change {name}; " + data.get("origin", "")
                        json.dump(data, open(os.path.join(dst, "seed-" + name + ".json"), "w"), indent=1, sort_keys=True)
                print(f"{name:34s} {prop} exit={r.returncode} {entry['checks'][prop]['secs']}s {v[0][:150] if v else ''}", flush=True)
        finally:
            shutil.rmtree(d, ignore_errors=True)
        entry["caught_by"] = sorted(p for p, c in entry["checks"].items() if c["exit"] == 1)
        json.dump(results, open(res_path, "w"), indent=1, sort_keys=True)


def main():
    ap = argparse.ArgumentParser()
    ap.add_argument("cmd", choices=["verify", "run"])
    ap.add_argument("names", nargs="*")
    ap.add_argument("--all-props", action="store_true")
    ap.add_argument("--tier", default="quick")
    ap.add_argument("--seed", type=int, default=1)
    ap.add_argument("--save-regress", action="store_true")
    ap.add_argument("--no-regress", action="store_true", help="skip the replay tier: measure the generated search alone")
    ap.add_argument("--results", default=None)
    a = ap.parse_args()
    names = a.names or sorted(n for n in os.listdir(SEEDED) if os.path.isdir(os.path.join(SEEDED, n)))
    if a.cmd == "verify":
        ok = all([verify(n) for n in names])
        sys.exit(0 if ok else 1)
    if a.results:
        global RESULTS_NAME
        RESULTS_NAME = a.results
    run(names, a.all_props, a.tier, a.seed, a.save_regress, a.no_regress)


if __name__ == "__main__":
    main()
