#!/bin/sh
# thorough_full.sh <seed> <id>... : the registered thorough command of each listed property, full budget
cd "$(dirname "$0")/.."
seed=$1; shift
rc=0
for id in "$@"; do
  out=$(VERIF_SEED=$seed ./check.py $id --tier thorough 2>&1); e=$?
  line=$(echo "$out" | grep -E "^(OK|VIOLATION|HARNESS-ERROR|violation)" | head -2 | tr '\n' ' ' | cut -c1-240)
  echo "seed=$seed $id exit=$e $line"
  [ $e -ne 0 ] && rc=1 && echo "$out" | tail -15
done
exit $rc
