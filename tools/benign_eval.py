#!/usr/bin/env python3
"""
Behaviour-preserving changes (/verif/benign/<name>/{patch.diff, equiv.py, meta.json}): the
false-alarm side of the seeded evaluation.  Each patch is applied to a scratch copy of /repo
(removed at once); the pinned baseline must still pass and EVERY quick check must stay quiet.

  benign_eval.py [<name>...] [--seed N] [--jobs 3] [--props C01,C02] [--results FILE]
Results: /verif/benign/RESULTS.json ; exit 1 if any check alarmed (to be triaged by hand).
"""
import argparse, json, os, shutil, subprocess, sys, time
from concurrent.futures import ThreadPoolExecutor

HERE = os.path.dirname(os.path.dirname(os.path.abspath(__file__)))
sys.path.insert(0, os.path.join(HERE, "tools"))
from seeded_eval import scratch_copy  # noqa: E402

BENIGN = os.path.join(HERE, "benign")


def one(name, seed, only=None):
    sd = os.path.join(BENIGN, name)
    props = [json.loads(l)["id"] for l in open(os.path.join(HERE, "properties.jsonl"))]
    if only:
        props = [p for p in props if p in only]
    d, repo = scratch_copy(os.path.join(sd, "patch.diff"))
    entry = {"checks": {}}
    try:
        r = subprocess.run([sys.executable, os.path.join(HERE, "tools", "run_baseline.py"), repo], capture_output=True, text=True)
        entry["baseline"] = r.stdout.strip().splitlines()[0] if r.stdout else r.stderr[-200:]
        entry["baseline_passes"] = r.returncode == 0
        for prop in props:
            out = os.path.join(d, "out-" + prop)
            os.makedirs(out, exist_ok=True)
            t = time.time()
            r = subprocess.run([os.path.join(HERE, "check.py"), prop, "--tier", "quick"], cwd=HERE,
                               env=dict(os.environ, VERIF_REPO=repo, VERIF_OUT=out, VERIF_SEED=str(seed)),
                               capture_output=True, text=True)
            v = [l for l in r.stdout.splitlines() if l.startswith(("violation:", "regression case fails:", "HARNESS"))]
            entry["checks"][prop] = {"exit": r.returncode, "secs": round(time.time() - t, 1), "seed": seed,
                                     "message": v[0][:400] if v else ""}
            if r.returncode != 0:
                keep = os.path.join(sd, f"alarm-{prop}.txt")
                open(keep, "w").write(r.stdout[-4000:])
                print(f"{name:12s} {prop} exit={r.returncode} {v[0][:160] if v else ''}", flush=True)
    finally:
        shutil.rmtree(d, ignore_errors=True)
    entry["alarms"] = sorted(p for p, c in entry["checks"].items() if c["exit"] != 0)
    print(f"{name:12s} baseline_passes={entry['baseline_passes']} alarms={entry['alarms']}", flush=True)
    return name, entry


def main():
    ap = argparse.ArgumentParser()
    ap.add_argument("names", nargs="*")
    ap.add_argument("--seed", type=int, default=1)
    ap.add_argument("--jobs", type=int, default=3)
    ap.add_argument("--props", help="comma-separated subset of checks (default: all 18)")
    ap.add_argument("--results", default="RESULTS.json")
    a = ap.parse_args()
    names = a.names or sorted(n for n in os.listdir(BENIGN) if os.path.isdir(os.path.join(BENIGN, n)))
    res_path = os.path.join(BENIGN, a.results)
    only = a.props.split(",") if a.props else None
    results = json.load(open(res_path)) if os.path.exists(res_path) else {}
    with ThreadPoolExecutor(a.jobs) as ex:
        for name, entry in ex.map(lambda n: one(n, a.seed, only), names):
            results[name] = entry
            json.dump(results, open(res_path, "w"), indent=1, sort_keys=True)
    sys.exit(1 if any(results[n]["alarms"] for n in names) else 0)


if __name__ == "__main__":
    main()
