#!/usr/bin/env python3
"""Run the pinned baseline test command of /repo and compare with BASELINE.json.

Usage: run_baseline.py [repo_dir]   (exit 0 iff every stable_pass test passed)
"""
import json, os, subprocess, sys, tempfile, xml.etree.ElementTree as ET

def main():
    repo = sys.argv[1] if len(sys.argv) > 1 else "/repo"
    base = json.load(open("/root/.vp/BASELINE.json"))
    with tempfile.TemporaryDirectory() as d:
        xml = os.path.join(d, "junit.xml")
        env = dict(os.environ, PYTHONDONTWRITEBYTECODE="1", PYTHONPATH=os.path.abspath(repo))
        env.pop("PY_TRIE_VERIF", None)
        subprocess.run(
            ["/venv/bin/python", "-m", "pytest", "-ra", "-q", "-p", "no:cacheprovider",
             "--timeout=900", "--continue-on-collection-errors", "--junitxml=" + xml],
            cwd=repo, env=env, stdout=subprocess.DEVNULL, stderr=subprocess.DEVNULL)
        passed = set()
        for tc in ET.parse(xml).getroot().iter("testcase"):
            if not any(c.tag in ("failure", "error", "skipped") for c in tc):
                passed.add(tc.get("classname") + "::" + tc.get("name"))
    missing = [t for t in base["stable_pass"] if t not in passed]
    print(f"baseline: {len(base['stable_pass']) - len(missing)}/{len(base['stable_pass'])} stable tests passed")
    for t in missing[:20]:
        print("  NOT PASSED:", t)
    return 1 if missing else 0

if __name__ == "__main__":
    sys.exit(main())
