#!/usr/bin/env python3
"""Regenerate /verif/MANIFEST.json from the property modules that exist (and validate it)."""
import importlib
import json
import os
import sys

HERE = os.path.dirname(os.path.dirname(os.path.abspath(__file__)))
sys.path.insert(0, "/repo")
sys.path.insert(1, HERE)

BASELINE_CMD = (
    "cd /repo && env -u PY_TRIE_VERIF /venv/bin/python -m pytest -ra -q -p no:cacheprovider "
    "--timeout=900 --continue-on-collection-errors"
)

NOT_BUILT = "check not built yet in this round (design in DESIGN.md section 5); nothing is claimed"


def main():
    props = [json.loads(l) for l in open(os.path.join(HERE, "properties.jsonl"))]
    checks, na = [], []
    for p in props:
        pid = p["id"]
        path = os.path.join(HERE, "ptv", "props", pid.lower() + ".py")
        if not os.path.exists(path):
            na.append({"property_id": pid, "reason": NOT_BUILT})
            continue
        mod = importlib.import_module(f"ptv.props.{pid.lower()}")
        checks.append(
            {
                "property_id": pid,
                "quick_cmd": f"./check.py {pid} --tier quick",
                "thorough_cmd": f"./check.py {pid} --tier thorough",
                "evidence_file": f"/verif/evidence/{pid}.json",
                "replay_cmd_template": f"./check.py {pid} --replay {{path}}",
                "engine": "ptv",
                "level_claimed": {
                    "category": mod.LEVEL,
                    "text": mod.LEVEL_TEXT,
                    "design_ref": f"DESIGN.md section 5, {pid}",
                },
                "level_note": mod.LEVEL_NOTE,
                "technique": mod.TECHNIQUE,
            }
        )
    manifest = {
        "version": 1,
        "setup_cmd": "./setup.sh",
        "hooks": {
            "guard": "PY_TRIE_VERIF",
            "enable": "no source hooks exist: every observation point is public API and the node database is injectable; checks import /repo's working tree directly (sys.path), nothing is built",
            "baseline_off_cmd": BASELINE_CMD,
            "source_commits": [],
            "add_only": True,
        },
        "engines": [
            {
                "name": "ptv",
                "path": "/verif/ptv",
                "serves_properties": [c["property_id"] for c in checks],
                "kind_free_text": "property-based testing: Hypothesis-generated plain-data cases (histories, fault scripts, schedules) interpreted against py-trie and independent reference models; bounded-exhaustive enumeration of small finite sub-domains; shrunk failures become replay files",
            }
        ],
        "checks": checks,
        "not_applicable": na,
        "notes": "All checks: ./check.py <ID> [--tier quick|thorough] [--replay FILE]; honours VERIF_SEED, VERIF_TIER, VERIF_REPO (default /repo), VERIF_BUDGET_S. Exit 0 held / 1 VIOLATION / 2 HARNESS-ERROR (machinery failure, nothing claimed). Genuine defects repaired in /repo are listed in KNOWN_FINDINGS.json ('fixed').",
    }
    out = os.path.join(HERE, "MANIFEST.json")
    with open(out, "w") as fh:
        json.dump(manifest, fh, indent=1)
        fh.write("\n")
    try:
        import jsonschema

        jsonschema.validate(manifest, json.load(open("/root/.vp/MANIFEST.schema.json")))
        print("MANIFEST.json valid;", len(checks), "checks,", len(na), "not_applicable")
    except ImportError:
        print("MANIFEST.json written (jsonschema not available for validation)")


if __name__ == "__main__":
    main()
