#!/usr/bin/env python3
"""import_seed.py CNN : copy /tmp/seed_out/CNN/{seed_X.diff,demo_X.py,NOTES.md} to /verif/seeded/CNN-X/."""
import json, os, shutil, sys
args = sys.argv[1:]
rnd = 1
if args and args[0] == "--round":
    rnd = int(args[1]); args = args[2:]
SRC = "/tmp/seed_out" if rnd == 1 else f"/tmp/seed{rnd}_out"
for pid in args:
    src = f"{SRC}/{pid}"
    for x in "AB":
        d = f"{src}/seed_{x}.diff"
        if not os.path.exists(d):
            print("missing", d); continue
        letter = chr(ord(x) + 2 * (rnd - 1))
        dst = f"/verif/seeded/{pid}-{letter}"
        os.makedirs(dst, exist_ok=True)
        shutil.copy(d, f"{dst}/patch.diff")
        shutil.copy(f"{src}/demo_{x}.py", f"{dst}/demo.py")
        if os.path.exists(f"{src}/NOTES.md"):
            shutil.copy(f"{src}/NOTES.md", f"{dst}/NOTES.md")
        meta = {"name": f"{pid}-{letter}", "property": pid, "round": rnd,
                "origin": "written by an independent sub-agent that saw only the property text and its own scratch worktree of /repo (nothing from /verif)",
                "needs_to_manifest": "see NOTES.md (section for change %s)" % x,
                "files_changed": sorted({l[6:].strip() for l in open(d) if l.startswith("+++ b/")})}
        json.dump(meta, open(f"{dst}/meta.json", "w"), indent=1)
        print("imported", dst)
