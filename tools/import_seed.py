#!/usr/bin/env python3
"""import_seed.py CNN : copy /tmp/seed_out/CNN/{seed_X.diff,demo_X.py,NOTES.md} to /verif/seeded/CNN-X/."""
import json, os, shutil, sys
for pid in sys.argv[1:]:
    src = f"/tmp/seed_out/{pid}"
    for x in "AB":
        d = f"{src}/seed_{x}.diff"
        if not os.path.exists(d):
            print("missing", d); continue
        dst = f"/verif/seeded/{pid}-{x}"
        os.makedirs(dst, exist_ok=True)
        shutil.copy(d, f"{dst}/patch.diff")
        shutil.copy(f"{src}/demo_{x}.py", f"{dst}/demo.py")
        if os.path.exists(f"{src}/NOTES.md"):
            shutil.copy(f"{src}/NOTES.md", f"{dst}/NOTES.md")
        meta = {"name": f"{pid}-{x}", "property": pid,
                "origin": "written by an independent sub-agent that saw only the property text and its own scratch worktree of /repo (nothing from /verif)",
                "needs_to_manifest": "see NOTES.md (section for change %s)" % x,
                "files_changed": sorted({l[6:].strip() for l in open(d) if l.startswith("+++ b/")})}
        json.dump(meta, open(f"{dst}/meta.json", "w"), indent=1)
        print("imported", dst)
