#!/usr/bin/env python3
"""Print the markdown table of seeded changes (from seeded/*/meta.json) for DESIGN.md section 11."""
import json, os
HERE = os.path.dirname(os.path.dirname(os.path.abspath(__file__)))
rows = []
for name in sorted(os.listdir(os.path.join(HERE, "seeded"))):
    mp = os.path.join(HERE, "seeded", name, "meta.json")
    if not os.path.exists(mp):
        continue
    m = json.load(open(mp))
    d = m.get("detected_by", {})
    v = d.get("violation", "")
    chk = v[v.find("[") + 1: v.find("]")] if "[" in v else ""
    first = "missed, caught after strengthening" if m.get("missed_by_first_version_of_the_check") else "caught"
    if m.get("claimed") is False:
        first = "not claimed"
    rows.append(f"| {name} | {', '.join(os.path.basename(f) for f in m['files_changed'])} | {m['needs_to_manifest']} | {first} | {d.get('check') or '-'}:`{chk}` ({d.get('secs_to_violation','?')} s) |")
print("| change | file(s) | what it is / what it needs to manifest | first version of the check | caught by (quick tier, seed 1) |")
print("|---|---|---|---|---|")
print("\n".join(rows))
