"""
Catalogue of realistic mutants of py-trie (each compiles; most keep the pinned tests green).
(id, [properties expected to catch it], file under trie/, old text, new text)
"""
M = []


def m(mid, props, path, old, new):
    M.append({"id": mid, "props": props, "file": path, "old": old, "new": new})


# ---- reverting the three repairs must be detected again -------------------------------
m("revert-D1", ["C01", "C03"], "hexary.py",
  """            # unconsumed tail in that case). No value is stored at either position.
            return BLANK_NODE
""",
  """            # unconsumed tail in that case). No value is stored at either position.
            if len(remaining_key) > 0:
                raise ValidationError("Traverse should never return an extension node")
            return BLANK_NODE
""")
m("revert-D2", ["C06", "C05"], "hexary.py",
  """                if self.is_pruning:
                    # The batch trie has already stored and counted its root node,""",
  """                if False:
                    # The batch trie has already stored and counted its root node,""")
m("revert-D3", ["C05", "C06"], "hexary.py",
  "            batch_ref_count = self._ref_count.copy()",
  "            batch_ref_count = self._ref_count")

# ---- C01 ------------------------------------------------------------------------------
m("C01-keystarts", ["C01"], "utils/nodes.py",
  "    if len(full_key) < len(partial_key):\n        return False\n    else:\n",
  "    if False:\n        return False\n    else:\n")
m("C01-setempty", ["C01"], "hexary.py",
  '            if value == b"":\n                new_node = self._delete(root_node, trie_key)\n            else:\n                new_node',
  '            if False:\n                new_node = self._delete(root_node, trie_key)\n            else:\n                new_node')
m("C01-travext", ["C01"], "hexary.py",
  "        else:\n            # The trie key and extension node key branch away from each other, so there\n            # is no node at the specified key.\n            return BLANK_NODE, ()",
  "        else:\n            return node[1], trie_key_remainder")
m("C01-leaf-overwrite", ["C01"], "hexary.py",
  "            if is_leaf_node(node):\n                return [node[0], value]",
  "            if is_leaf_node(node):\n                return [node[0], value if len(value) != 31 else node[1]]")

# ---- C02 ------------------------------------------------------------------------------
m("C02-embed-le32", ["C02"], "hexary.py",
  "        if len(encoded_node) < 32:\n            return node, None",
  "        if len(encoded_node) <= 32:\n            return node, None")
m("C02-nonorm-branch", ["C02"], "hexary.py",
  "            return [encode_nibbles([sub_node_idx]), sub_node_hash]",
  "            return node")
m("C02-shortroot", ["C02"], "hexary.py",
  "        if value is None:\n            # Some nodes are so small",
  "        if value is None and False:\n            # Some nodes are so small")
m("C02-ext-merge-drop", ["C02", "C01"], "hexary.py",
  "            new_key = current_key + decode_nibbles(new_sub_node[0])",
  "            new_key = current_key + decode_nibbles(new_sub_node[0])[1:] if len(current_key) == 3 else current_key + decode_nibbles(new_sub_node[0])")

# ---- C06 ------------------------------------------------------------------------------
m("C06-noprune-norm", ["C06"], "hexary.py",
  "        if sub_node_type in {NODE_TYPE_LEAF, NODE_TYPE_EXTENSION}:\n            self._prune_node(sub_node)\n",
  "        if sub_node_type in {NODE_TYPE_LEAF, NODE_TYPE_EXTENSION}:\n")
m("C06-noprune-merge", ["C06"], "hexary.py",
  "        if new_sub_node_type in {NODE_TYPE_LEAF, NODE_TYPE_EXTENSION}:\n            self._prune_node(new_sub_node)\n",
  "        if new_sub_node_type in {NODE_TYPE_LEAF, NODE_TYPE_EXTENSION}:\n")
m("C06-newcount", ["C06"], "hexary.py",
  "            if new_count <= 0:", "            if new_count < 0:")
m("C06-shortroot", ["C06"], "hexary.py",
  "                    if node_body is None and old_root_hash in self.db:\n                        self._pending_prune_keys[old_root_hash] += 1",
  "                    pass")

# ---- C17 ------------------------------------------------------------------------------
m("C17-readthrough", ["C17"], "utils/db.py",
  "            else:\n                return self.wrapped_db[key]\n        else:",
  "            else:\n                raise KeyError(key)\n        else:")
m("C17-dodeletes", ["C17"], "utils/db.py",
  "                elif do_deletes:", "                elif True:")
m("C17-commit-finally", ["C17", "C05"], "utils/db.py",
  "        finally:\n            self.cache = {}",
  "        finally:\n            [self.wrapped_db.__setitem__(k, v) for k, v in self.cache.items() if v is not DELETED]\n            self.cache = {}")
m("C17-cache-not-reset", ["C17"], "utils/db.py",
  "        except Exception as exc:\n            raise exc\n",
  "        except Exception as exc:\n            self = ScratchDB(self.wrapped_db)\n            raise exc\n")

# ---- C03 ------------------------------------------------------------------------------
m("C03-proof-ext", ["C03"], "hexary.py",
  "            else:\n                return updated_proof\n        elif node_type == NODE_TYPE_BRANCH:",
  "            else:\n                return last_proof\n        elif node_type == NODE_TYPE_BRANCH:")
m("C03-proof-branch-end", ["C03"], "hexary.py",
  "            if not unproven_key:\n                return updated_proof",
  "            if not unproven_key:\n                return updated_proof if node[-1] else last_proof")
m("C03-swallow", ["C03"], "hexary.py",
  '                raise BadTrieProof(\n                    f"Missing proof node with hash {e.missing_node_hash}"\n                )',
  "                return b''")
m("C03-ignoreroot", ["C03"], "hexary.py",
  "        with trie.at_root(root_hash) as proven_snapshot:",
  "        with trie.at_root(trie._set_raw_node(proof[0]) if proof else root_hash) as proven_snapshot:")
m("C03-extra-nodes", ["C03"], "hexary.py",
  "        elif node_type == NODE_TYPE_LEAF:\n            return updated_proof\n        elif node_type == NODE_TYPE_EXTENSION:\n            current_key = extract_key(node)\n            if key_starts_with(unproven_key, current_key):",
  "        elif node_type == NODE_TYPE_LEAF:\n            return updated_proof\n        elif node_type == NODE_TYPE_EXTENSION:\n            current_key = extract_key(node)\n            if key_starts_with(unproven_key, current_key) or len(unproven_key) < len(current_key):")

# ---- C05 ------------------------------------------------------------------------------
m("C05-root-inside-with", ["C05"], "hexary.py",
  "            yield memory_trie\n\n        if self.is_pruning:\n            # The batch was committed",
  "            try:\n                yield memory_trie\n            finally:\n                self.root_hash = memory_trie.root_hash\n\n        if self.is_pruning:\n            # The batch was committed")
m("C05-dodeletes-inverted", ["C05", "C04", "C06"], "hexary.py",
  "scratch_db.batch_commit(do_deletes=self.is_pruning)",
  "scratch_db.batch_commit(do_deletes=not self.is_pruning)")
m("C05-nonpruning-batch", ["C05"], "hexary.py",
  "                scratch_db, self.root_hash, prune=True, ref_count=batch_ref_count\n",
  "                scratch_db, self.root_hash, prune=self.is_pruning, ref_count=batch_ref_count\n")
m("C05-counts-adopted-early", ["C05", "C06"], "hexary.py",
  "            yield memory_trie\n\n        if self.is_pruning:\n            # The batch was committed, so adopt its reference counts\n            self._ref_count.clear()\n            self._ref_count.update(batch_ref_count)\n",
  "            try:\n                yield memory_trie\n            finally:\n                if self.is_pruning:\n                    self._ref_count.clear()\n                    self._ref_count.update(batch_ref_count)\n")
# Equivalent mutants (documented, not run): no listed property can observe them.
EQUIVALENT = [
    ("C15-shared-branch-list", "smt.py: SparseMerkleProof keeps the caller's list object instead of copying it - "
     "aliasing of the constructor argument is not part of C15 (the proof still tracks the tree)"),
    ("C09-cache-stale-keep", "fog.py: TrieFrontierCache.add no longer pops the entry of the explored prefix - "
     "a memory-only effect, the prefix is never looked up again once explored"),
    ("C05-commit-order-reversed", "utils/db.py: commit loop iterates reversed(cache.items()) - the outer root "
     "is adopted only after every write, so a failing write at any position leaves the same observable state"),
]

# ---- C04 ------------------------------------------------------------------------------
m("C04-dodeletes", ["C04"], "hexary.py",
  "scratch_db.batch_commit(do_deletes=self.is_pruning)", "scratch_db.batch_commit(do_deletes=True)")
m("C04-snapshot-prunes", ["C04"], "hexary.py",
  "        snapshot = type(self)(self.db, at_root_hash, prune=False)",
  "        snapshot = type(self)(self.db, at_root_hash, prune=True)")
m("C04-root-before-writes", ["C04"], "hexary.py",
  "        self._set_db_value(node_hash, encoded_node)\n        return node_hash",
  "        self.root_hash = node_hash\n        self._set_db_value(node_hash, encoded_node)\n        return node_hash")
m("C04-batch-root-early", ["C04", "C05"], "hexary.py",
  "            yield memory_trie\n\n        if self.is_pruning:\n            # The batch was committed",
  "            yield memory_trie\n            self.root_hash = memory_trie.root_hash\n\n        if self.is_pruning:\n            # The batch was committed")

# ---- C07 ------------------------------------------------------------------------------
m("C07-prune-finally", ["C07"], "hexary.py",
  "            yield\n            if self.is_pruning:\n                self._complete_pruning()\n        finally:",
  "            yield\n        finally:\n            if self.is_pruning:\n                self._complete_pruning()")
m("C07-usedkey", ["C07"], "hexary.py",
  "                used_key = trie_key[: len(trie_key) - len(remaining_key)]\n\n                raise MissingTraversalNode",
  "                used_key = trie_key[: len(trie_key) - len(remaining_key) - 1]\n\n                raise MissingTraversalNode")
m("C07-report-parent", ["C07"], "hexary.py",
  "                raise MissingTraversalNode(exc.args[0], used_key)",
  "                raise MissingTraversalNode(exc.args[0] if len(used_key) < 2 else keccak(encode_raw(node)) if len(encode_raw(node)) >= 32 else exc.args[0], used_key)")
m("C07-swallow-normalize", ["C07", "C02"], "hexary.py",
  "        sub_node = self.get_node(sub_node_hash)\n        sub_node_type = get_node_type(sub_node)\n",
  "        try:\n            sub_node = self.get_node(sub_node_hash)\n        except KeyError:\n            return [encode_nibbles([sub_node_idx]), sub_node_hash]\n        sub_node_type = get_node_type(sub_node)\n")
m("C07-wrong-root-in-report", ["C07"], "hexary.py",
  "            raise MissingTrieNode(\n                traverse_exc.missing_node_hash,\n                root_hash,\n                key,",
  "            raise MissingTrieNode(\n                traverse_exc.missing_node_hash,\n                traverse_exc.missing_node_hash,\n                key,")
m("C07-write-before-read", ["C07"], "hexary.py",
  "        node_to_delete = self.get_node(node[trie_key[0]])\n\n        sub_node = self._delete(node_to_delete, trie_key[1:])",
  "        self._persist_node([compute_leaf_key(trie_key), b'tmp' * 12])\n        node_to_delete = self.get_node(node[trie_key[0]])\n\n        sub_node = self._delete(node_to_delete, trie_key[1:])")

# ---- C08 ------------------------------------------------------------------------------
m("C08-subseg", ["C08"], "utils/nodes.py",
  "Nibbles((nibble,)) for nibble in range(16) if bool(node_body[nibble])",
  "Nibbles((nibble,)) for nibble in range(1, 16) if bool(node_body[nibble])")
m("C08-simsuffix", ["C08"], "exceptions.py",
  "trimmed_suffix = Nibbles(actual_node.suffix[len(key_tail) :])",
  "trimmed_suffix = Nibbles(actual_node.suffix[len(key_tail) - 1 :])")
m("C08-simext", ["C08", "C09"], "exceptions.py",
  "trimmed_extension = Nibbles(extension[len(key_tail) :])",
  "trimmed_extension = Nibbles(extension)")
m("C08-divergent-leaf-partial", ["C08"], "hexary.py",
  "                if key_starts_with(leaf_key, remaining_key):\n                    return node, remaining_key",
  "                if key_starts_with(leaf_key, remaining_key[:1]):\n                    return node, remaining_key")
m("C08-traverse_from-rereads", ["C08"], "hexary.py",
  "        node, remaining_key = self._traverse_from(parent_node.raw, trie_key)\n",
  "        self.get_node(self.root_hash)\n        node, remaining_key = self._traverse_from(parent_node.raw, trie_key)\n")
m("C08-ext-value", ["C08"], "utils/nodes.py",
  "            sub_segments=(Nibbles(key_extension),),\n            value=b\"\",",
  "            sub_segments=(Nibbles(key_extension),),\n            value=bytes(node_body[1]) if len(key_extension) == 1 else b\"\",")
m("C08-path-to-node", ["C08"], "hexary.py",
  "        node, remaining_key = self._traverse(self.root_hash, trie_key)\n\n        annotated_node = annotate_node(node)\n\n        if remaining_key:\n            path_to_node = trie_key[: len(trie_key) - len(remaining_key)]",
  "        node, remaining_key = self._traverse(self.root_hash, trie_key)\n\n        annotated_node = annotate_node(node)\n\n        if remaining_key:\n            path_to_node = trie_key[: max(len(trie_key) - len(remaining_key), 1)]")

# ---- C10 ------------------------------------------------------------------------------
m("C10-suffix-ge", ["C10"], "iter.py",
  "        if node.suffix > key:", "        if node.suffix >= key:")
m("C10-segcmp", ["C10"], "iter.py",
  "            if key[: len(next_segment)] > next_segment:",
  "            if key[: len(next_segment)] >= next_segment:")
m("C10-nearest-unknown", ["C10"], "iter.py",
  "                nearest_prefix = next_fog.nearest_right(())",
  "                nearest_prefix = next_fog.nearest_unknown((8,))")
m("C10-valorder", ["C10"], "iter.py",
  "        if node.value:\n            # This is either a leaf node, or a branch node with a value.\n            # The value in a branch node comes before all the child values\n            return traversed + node.suffix\n        elif len(node.sub_segments) == 0:",
  "        if node.value and len(node.sub_segments) == 0:\n            return traversed + node.suffix\n        elif len(node.sub_segments) == 0:")
m("C10-skip-continue", ["C10"], "iter.py",
  "                    if next_key is None:\n                        # Could not find a key to the right in any sub-node.",
  "                    if next_key is None and len(traversed) < 3:\n                        # Could not find a key to the right in any sub-node.")

# ---- C11 ------------------------------------------------------------------------------
m("C11-nearest_right-noprefixtest", ["C11"], "fog.py",
  "            if key_starts_with(key, nearest_left):\n                return nearest_left\n            else:\n                try:",
  "            if key_starts_with(key, nearest_left) or index == len(self._unexplored_prefixes) - 1 and len(key) > 5:\n                return nearest_left\n            else:\n                try:")
m("C11-nearest_unknown-last", ["C11"], "fog.py",
  "        elif index == len(self._unexplored_prefixes):\n            return self._unexplored_prefixes[-1]",
  "        elif index == len(self._unexplored_prefixes):\n            return self._unexplored_prefixes[0]")
m("C11-nested", ["C11"], "fog.py",
  "                    if trimmed_segment in sub_segments:", "                    if False:")
m("C11-explore-mutates-self", ["C11"], "fog.py",
  "        new_fog_prefixes = self._unexplored_prefixes.copy()\n\n        try:",
  "        new_fog_prefixes = self._unexplored_prefixes\n\n        try:")
m("C11-mark-ignores-unknown", ["C11"], "fog.py",
  "            if prefix not in new_unexplored_prefixes:\n                raise ValidationError(",
  "            if prefix not in new_unexplored_prefixes:\n                continue\n                raise ValidationError(")
m("C11-dup-check", ["C11"], "fog.py",
  "        if len(set(sub_segments)) != len(sub_segments):",
  "        if len(set(sub_segments)) != len(sub_segments) and len(sub_segments) > 2:")
m("C11-serialize-terminator", ["C11"], "fog.py",
  "                Nibbles(decode_nibbles(prefix))\n",
  "                Nibbles(decode_nibbles(prefix)[:7])\n")
m("C11-distance", ["C11"], "fog.py",
  "            if left_distance < right_distance:\n                return nearest_left",
  "            if left_distance < right_distance and len(key) < 5:\n                return nearest_left")

# ---- C09 ------------------------------------------------------------------------------
m("C09-cacheadd", ["C09"], "fog.py",
  "            self._cache[new_prefix] = (trie_node, Nibbles(segment))",
  "            self._cache[new_prefix] = (trie_node, new_prefix)")
m("C09-explore-drops-child", ["C09", "C11"], "fog.py",
  "        new_fog_prefixes.update([old_prefix + segment for segment in sub_segments])",
  "        new_fog_prefixes.update([old_prefix + segment for segment in sub_segments[:15]])")
m("C09-annotate-drops-last", ["C09", "C08"], "utils/nodes.py",
  "Nibbles((nibble,)) for nibble in range(16) if bool(node_body[nibble])",
  "Nibbles((nibble,)) for nibble in range(15) if bool(node_body[nibble])")
m("C09-simleaf-value", ["C09", "C08"], "exceptions.py",
  "            return HexaryTrieNode(\n                (),\n                actual_node.value,\n                trimmed_suffix,",
  "            return HexaryTrieNode(\n                (),\n                b\"\",\n                trimmed_suffix,")
m("C09-leaf-diverge-partial", ["C09", "C08"], "hexary.py",
  "                if key_starts_with(leaf_key, remaining_key):\n                    return node, remaining_key\n                else:",
  "                if key_starts_with(leaf_key, remaining_key) or len(remaining_key) == 1:\n                    return node, remaining_key\n                else:")

# ---- C12 ------------------------------------------------------------------------------
m("C12-order", ["C12"], "binary.py",
  "            if keypath[common_prefix_len : common_prefix_len + 1] == BYTE_1:\n                newsub = self._hash_and_save(encode_branch_node(oldnode, valnode))",
  "            if keypath[common_prefix_len : common_prefix_len + 1] == BYTE_1 and common_prefix_len:\n                newsub = self._hash_and_save(encode_branch_node(oldnode, valnode))")
m("C12-firstbit", ["C12"], "binary.py",
  "            first_bit = BYTE_1 if new_right_child != BLANK_HASH else BYTE_0",
  "            first_bit = BYTE_1 if new_right_child != BLANK_HASH and subnodetype != LEAF_TYPE else BYTE_0")
m("C12-subtrie", ["C12"], "binary.py",
  "            if len(keypath) < len(left_child) and keypath == left_child[: len(keypath)]:\n                return BLANK_HASH",
  "            if len(keypath) + 1 < len(left_child) and keypath == left_child[: len(keypath)]:\n                return BLANK_HASH")
m("C12-nocompress", ["C12"], "binary.py",
  "            if subnodetype == KV_TYPE:\n                return self._hash_and_save(\n                    encode_kv_node(left_child + sub_left_child, sub_right_child)\n                )\n            else:",
  "            if subnodetype == KV_TYPE and len(left_child) != 8:\n                return self._hash_and_save(\n                    encode_kv_node(left_child + sub_left_child, sub_right_child)\n                )\n            else:")
m("C12-override-missed", ["C12"], "binary.py",
  "                if len(keypath) <= common_prefix_len:\n                    raise NodeOverrideError(",
  "                if len(keypath) < common_prefix_len:\n                    raise NodeOverrideError(")
m("C12-subtrie-branch-end", ["C12"], "binary.py",
  "            if not keypath:\n                if if_delete_subtrie:\n                    return BLANK_HASH\n                else:\n                    raise NodeOverrideError(\n                        \"Fail to set the value because it's key\"\n                        \" is the prefix of other existing key\"\n                    )\n            return self._set_branch_node(",
  "            if not keypath:\n                if if_delete_subtrie and False:\n                    return BLANK_HASH\n                else:\n                    raise NodeOverrideError(\n                        \"Fail to set the value because it's key\"\n                        \" is the prefix of other existing key\"\n                    )\n            return self._set_branch_node(")
m("C12-get-kv-short", ["C12"], "binary.py",
  "            if keypath[: len(left_child)] == left_child:\n                return self._get(right_child, keypath[len(left_child) :])\n            else:\n                return None",
  "            if keypath[: len(left_child)] == left_child[: len(keypath)]:\n                return self._get(right_child, keypath[len(left_child) :])\n            else:\n                return None")
m("C12-twobits", ["C12", "C16"], "utils/binaries.py",
  "    prefix = TWO_BITS[len(input_bin) % 4]", "    prefix = TWO_BITS[len(input_bin) % 4 if len(input_bin) != 13 else 0]")

# ---- C13 ------------------------------------------------------------------------------
m("C13-witness", ["C13"], "branches.py",
  "            yield node\n            yield from get_trie_nodes(db, right_child)\n        elif keypath[: len(left_child)] == left_child:",
  "            yield node\n        elif keypath[: len(left_child)] == left_child:")
m("C13-getbranch", ["C13"], "branches.py",
  "            yield from _get_branch(db, right_child, keypath[len(left_child) :])\n        else:\n            yield node",
  "            yield from _get_branch(db, right_child, keypath[len(left_child) :])\n        else:\n            return")
m("C13-exist-past-leaf", ["C13"], "branches.py",
  "    if nodetype == LEAF_TYPE:\n        if key_prefix:\n            return False\n        return True",
  "    if nodetype == LEAF_TYPE:\n        return True")
m("C13-valid-ignores-root", ["C13"], "branches.py",
  "    assert BinaryTrie(db=db, root_hash=root_hash).get(key) == value",
  "    assert BinaryTrie(db=db, root_hash=keccak(branch[0])).get(key) == value")
m("C13-trienodes-skip-right", ["C13"], "branches.py",
  "        yield from get_trie_nodes(db, left_child)\n        yield from get_trie_nodes(db, right_child)",
  "        yield from get_trie_nodes(db, left_child)\n        if left_child != right_child:\n            yield from get_trie_nodes(db, right_child)\n        if False:\n            pass")
m("C13-exist-kv-partial", ["C13"], "branches.py",
  "            if key_prefix == left_child[: len(key_prefix)]:\n                return True\n            return False",
  "            return True")
m("C13-branch-tooshort-ok", ["C13"], "branches.py",
  "    elif nodetype == BRANCH_TYPE:\n        if not keypath:\n            raise InvalidKeyError(\"Key too short\")\n        if keypath[:1] == BYTE_0:\n            yield node\n            yield from _get_branch(db, left_child, keypath[1:])",
  "    elif nodetype == BRANCH_TYPE:\n        if not keypath:\n            raise InvalidKeyError(\"Key too short\")\n        if keypath[:1] == BYTE_0:\n            yield from _get_branch(db, left_child, keypath[1:])")
m("C13-valid-assert-removed", ["C13"], "branches.py",
  "    assert BinaryTrie(db=db, root_hash=root_hash).get(key) == value\n    return True",
  "    BinaryTrie(db=db, root_hash=root_hash).get(key)\n    return True")

# ---- C14 / C15 ------------------------------------------------------------------------
m("C14-delete-blank", ["C14"], "smt.py",
  "        return self.set(key, self._default)", "        return self.set(key, b\"\")")
m("C14-sibling", ["C14"], "smt.py",
  "            if path & target_bit:\n                node = sibling_node + node_hash\n            else:\n                node = node_hash + sibling_node",
  "            if path & target_bit and target_bit != 4:\n                node = sibling_node + node_hash\n            else:\n                node = node_hash + sibling_node")
m("C14-fromdb-default", ["C14"], "smt.py",
  "        smt = cls(key_size=key_size, default=default)", "        smt = cls(key_size=key_size)")
m("C14-calcroot-order", ["C14"], "smt.py",
  "        if path & target_bit:\n            node_hash = keccak(sibling_node + node_hash)",
  "        if path & target_bit and target_bit != 128:\n            node_hash = keccak(sibling_node + node_hash)")
m("C14-proof-update-order", ["C14"], "smt.py",
  "        return tuple(reversed(proof_update))", "        return tuple(proof_update)")
m("C14-exists-blank", ["C14"], "smt.py",
  "        if value == BLANK_NODE:\n            raise KeyError(\"Key does not exist\")\n\n        return value",
  "        return value")
m("C15-lencheck", ["C15"], "smt.py",
  "            if len(node_updates) <= branch_point:", "            if len(node_updates) < branch_point:")
m("C15-branchpoint", ["C15"], "smt.py",
  "                    branch_point = (self._branch_size - 1) - bit",
  "                    branch_point = max((self._branch_size - 1) - bit - 1, 0)")
m("C15-ownkey-value", ["C15"], "smt.py",
  "        if path_diff == 0:\n            self._value = value", "        if path_diff == 0:\n            pass")
m("C15-update-before-check", ["C15"], "smt.py",
  "            if len(node_updates) <= branch_point:\n                raise ValidationError(\"Updated node list is not deep enough\")\n",
  "            if len(node_updates) <= branch_point:\n                self._branch[branch_point] = b\"\\x00\" * 32\n                raise ValidationError(\"Updated node list is not deep enough\")\n")

# ---- C16 ------------------------------------------------------------------------------
m("C16-oddflag", ["C16", "C02"], "utils/nibbles.py",
  "                (flag + 1,),\n", "                (flag + 1 if flag else 3,),\n")
m("C16-twobits-index", ["C16"], "utils/binaries.py",
  "    padded_len = TWO_BITS.index(path[2:4])\n", "    padded_len = TWO_BITS.index(path[2:4]) if len(path) != 16 else 0\n")
m("C16-parse-branch-len", ["C16"], "utils/nodes.py",
  "        if len(node) != 65:", "        if len(node) < 65:")
m("C16-parse-kv-len", ["C16"], "utils/nodes.py",
  "        if len(node) <= 33:", "        if len(node) < 33:")
m("C16-parse-leaf-empty", ["C16"], "utils/nodes.py",
  "        if len(node) == 1:\n            raise InvalidNode(\"Invalid leaf node, can not contain empty value\")",
  "        if len(node) == 0:\n            raise InvalidNode(\"Invalid leaf node, can not contain empty value\")")
m("C16-decode-terminator", ["C16", "C01"], "utils/nibbles.py",
  "    needs_terminator = flag in {HP_FLAG_2, HP_FLAG_2 + 1}", "    needs_terminator = flag in {HP_FLAG_2}")
m("C16-nibbles-to-bytes", ["C16"], "utils/nibbles.py",
  "NIBBLES_LOOKUPS = {byte: (byte >> 4, byte & 15) for byte in range(256)}",
  "NIBBLES_LOOKUPS = {byte: (byte >> 4, byte & 15) for byte in range(256)}\nNIBBLES_LOOKUPS[0xfe] = (15, 15)")
m("C16-unknown-type", ["C16"], "utils/nodes.py",
  "    else:\n        raise InvalidNode(\"Unable to parse node\")",
  "    else:\n        return LEAF_TYPE, None, node[1:]")

# ---- C18 ------------------------------------------------------------------------------
m("C18-set-value-unvalidated", ["C18"], "hexary.py",
  "        validate_is_bytes(key)\n        validate_is_bytes(value)\n\n        trie_key = bytes_to_nibbles(key)",
  "        validate_is_bytes(key)\n\n        trie_key = bytes_to_nibbles(key)")
m("C18-delete-validates-late", ["C18"], "hexary.py",
  "    def delete(self, key):\n        validate_is_bytes(key)\n\n        trie_key = bytes_to_nibbles(key)\n\n        try:\n            root_node = self.get_node(self.root_hash)\n",
  "    def delete(self, key):\n        self._set_db_value(b'\\x00' * 32, b'junk')\n        validate_is_bytes(key)\n\n        trie_key = bytes_to_nibbles(key)\n\n        try:\n            root_node = self.get_node(self.root_hash)\n")
m("C18-smt-get-length", ["C18"], "smt.py",
  "        validate_is_bytes(key)\n        validate_length(key, self._key_size)\n        branch = []",
  "        validate_is_bytes(key)\n        branch = []")
m("C18-smt-keysize", ["C18"], "smt.py",
  "        if not 1 <= key_size <= 32:", "        if not 0 <= key_size <= 32:")
m("C18-atroot-pruning", ["C18"], "hexary.py",
  "        if self.is_pruning:\n            raise ValidationError(\"Cannot use trie snapshot while pruning\")\n",
  "")
m("C18-refcount-nonpruning", ["C18"], "hexary.py",
  "                raise ValueError(\n                    \"Cannot pass an existing reference count in to a non-pruning trie\"\n                )",
  "                self._ref_count = None")
m("C18-validate-bytes-bytearray", ["C18"], "validation.py",
  "    if not isinstance(value, bytes):", "    if not isinstance(value, (bytes, bytearray)):")
m("C18-nibble-range", ["C18", "C11"], "typing.py",
  "                cls, (Nibble(maybe_nibble) for maybe_nibble in nibbles)",
  "                cls, (maybe_nibble if maybe_nibble == 16 else Nibble(maybe_nibble) for maybe_nibble in nibbles)")
m("C18-bin-delete-subtrie", ["C18"], "binary.py",
  "        validate_is_bytes(key)\n\n        self.root_hash = self._set(\n            self.root_hash,\n            encode_to_bin(key),\n            value=b\"\",\n            if_delete_subtrie=True,",
  "        self.root_hash = self._set(\n            self.root_hash,\n            encode_to_bin(key),\n            value=b\"\",\n            if_delete_subtrie=True,")
m("C18-proof-branch-length", ["C18"], "smt.py",
  "        validate_is_bytes(key)\n        validate_is_bytes(value)\n        validate_length(branch, len(key) * 8)\n\n        self._key = key",
  "        validate_is_bytes(key)\n        validate_is_bytes(value)\n\n        self._key = key")
m("C18-fromdb-root-length", ["C18"], "smt.py",
  "        validate_length(root_hash, 32)  # Must be a bytes32 hash\n", "")
