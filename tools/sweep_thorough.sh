#!/bin/sh
# sweep_thorough.sh <cases> <seed>... : thorough-tier code paths with a reduced case budget
cd "$(dirname "$0")/.."
cases=$1; shift
rc=0
for seed in "$@"; do
  for id in C01 C02 C03 C04 C05 C06 C07 C08 C09 C10 C11 C12 C13 C14 C15 C16 C17 C18; do
    out=$(VERIF_SEED=$seed VERIF_CASES=$cases VERIF_ATHERIS_RUNS=20000 ./check.py $id --tier thorough 2>&1); e=$?
    line=$(echo "$out" | grep -E "^(OK|VIOLATION|HARNESS-ERROR|violation)" | head -2 | tr '\n' ' ' | cut -c1-220)
    echo "seed=$seed $id exit=$e $line"
    [ $e -ne 0 ] && rc=1 && echo "$out" | tail -15
  done
done
exit $rc
