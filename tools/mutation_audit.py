#!/usr/bin/env python3
"""
Mutation audit: apply each catalogued mutant to a scratch copy of /repo (outside /repo
and /verif), run the listed property checks against it (VERIF_REPO=<scratch>), require
exit 1 + a replay file that reproduces with --replay. Scratch copies are removed at once.

  mutation_audit.py [--ids a,b] [--props C01,C02] [--jobs 2] [--tests] [--tier quick]
Results: /verif/audit/mutation_audit.json (documentation; never read by checks).
"""
import argparse, json, os, re, shutil, subprocess, sys, tempfile, time
from concurrent.futures import ThreadPoolExecutor

HERE = os.path.dirname(os.path.dirname(os.path.abspath(__file__)))
sys.path.insert(0, os.path.join(HERE, "tools"))


def run_mutant(mut, args):
    scratch = tempfile.mkdtemp(prefix="ptvmut_", dir="/tmp")
    res = {"id": mut["id"], "file": mut["file"], "props": mut["props"], "results": {}}
    try:
        repo = os.path.join(scratch, "repo")
        shutil.copytree(args.repo, repo, ignore=shutil.ignore_patterns(".git", "__pycache__", "*.egg-info", "fixtures"))
        target = os.path.join(repo, "trie", mut["file"])
        src = open(target).read()
        if "src" in mut:
            open(target, "w").write(mut["src"])
        else:
            if src.count(mut["old"]) != 1:
                res["status"] = "PATTERN-NOT-FOUND" if mut["old"] not in src else "PATTERN-AMBIGUOUS"
                return res
            open(target, "w").write(src.replace(mut["old"], mut["new"]))
        r = subprocess.run(["/venv/bin/python", "-c", "import trie, trie.hexary, trie.binary, trie.smt, trie.branches, trie.fog, trie.iter"],
                           cwd=repo, env=dict(os.environ, PYTHONPATH=repo), capture_output=True, text=True)
        if r.returncode != 0:
            res["status"] = "DOES-NOT-IMPORT"
            return res
        if args.tests:
            t = time.time()
            r = subprocess.run(["/venv/bin/python", "-m", "pytest", "-q", "-x", "-p", "no:cacheprovider", "tests/core",
                                "--deselect", "tests/core/test_hexary_trie.py::test_fixtures_exist",
                                "--ignore", "tests/core/test_iter.py"],
                               cwd=repo, env=dict(os.environ, PYTHONPATH=repo, PYTHONDONTWRITEBYTECODE="1"),
                               capture_output=True, text=True)
            res["tests_pass"] = r.returncode == 0
            res["tests_s"] = round(time.time() - t, 1)
            if r.returncode != 0:
                res["tests_tail"] = r.stdout[-400:]
        caught = False
        for prop in mut["props"]:
            if args.props and prop not in args.props:
                continue
            out = os.path.join(scratch, "out-" + prop)
            os.makedirs(out)
            env = dict(os.environ, VERIF_REPO=repo, VERIF_OUT=out, VERIF_SEED=str(args.seed))
            if getattr(args, "cases", None):
                env["VERIF_CASES"] = str(args.cases)
            t = time.time()
            r = subprocess.run([os.path.join(HERE, "check.py"), prop, "--tier", args.tier],
                               cwd=HERE, env=env, capture_output=True, text=True)
            dt = round(time.time() - t, 1)
            entry = {"exit": r.returncode, "secs": dt}
            mt = re.search(r"VIOLATION property=(\S+) replay=(\S+)", r.stdout)
            if r.returncode == 1 and mt:
                first = [l for l in r.stdout.splitlines() if l.startswith(("violation:", "regression case fails:"))]
                entry["violation"] = first[0][:300] if first else ""
                rp = mt.group(2)
                r2 = subprocess.run([os.path.join(HERE, "check.py"), prop, "--replay", rp], cwd=HERE, env=env, capture_output=True, text=True)
                entry["replay_reproduces"] = r2.returncode == 1
                r3 = subprocess.run([os.path.join(HERE, "check.py"), prop, "--replay", rp], cwd=HERE,
                                    env=dict(os.environ, VERIF_OUT=out), capture_output=True, text=True)
                entry["replay_passes_on_unmutated"] = r3.returncode == 0
                if args.save_regress and entry["replay_reproduces"] and entry["replay_passes_on_unmutated"]:
                    dst = os.path.join(HERE, "regress", prop)
                    os.makedirs(dst, exist_ok=True)
                    data = json.load(open(rp))
                    data["origin"] = f"mutant {mut['id']} ({mut['file']}); " + data.get("origin", "")
                    json.dump(data, open(os.path.join(dst, mut["id"] + ".json"), "w"), indent=1, sort_keys=True)
                caught = True
            elif r.returncode == 2:
                entry["harness_error"] = r.stdout[-600:]
            res["results"][prop] = entry
            if caught and not args.all_props:
                break
        harness = any(e.get("exit") == 2 for e in res["results"].values())
        res["status"] = "killed" if caught else ("HARNESS-ERROR" if harness else "SURVIVED")
        return res
    finally:
        shutil.rmtree(scratch, ignore_errors=True)


def main():
    ap = argparse.ArgumentParser()
    ap.add_argument("--ids")
    ap.add_argument("--props")
    ap.add_argument("--jobs", type=int, default=2)
    ap.add_argument("--tests", action="store_true")
    ap.add_argument("--tier", default="quick")
    ap.add_argument("--seed", type=int, default=1)
    ap.add_argument("--repo", default="/repo")
    ap.add_argument("--all-props", action="store_true")
    ap.add_argument("--save-regress", action="store_true")
    ap.add_argument("--catalogue", default="mutants")
    ap.add_argument("--out", default=os.path.join(HERE, "audit", "mutation_audit.json"))
    args = ap.parse_args()
    cat = __import__(args.catalogue).M
    if args.ids:
        ids = set(args.ids.split(","))
        cat = [m for m in cat if m["id"] in ids]
    if args.props:
        args.props = set(args.props.split(","))
        cat = [m for m in cat if set(m["props"]) & args.props]
    results = []
    with ThreadPoolExecutor(args.jobs) as ex:
        for res in ex.map(lambda mu: run_mutant(mu, args), cat):
            results.append(res)
            detail = "; ".join(f"{p}:exit{e['exit']}/{e['secs']}s" + ("" if e.get("replay_reproduces", True) else "/REPLAY-NOT-REPRODUCED") for p, e in res.get("results", {}).items())
            extra = "" if res.get("tests_pass", True) else "  [pinned tests FAIL on this mutant]"
            print(f"{res['id']:28s} {res['status']:10s} {detail}{extra}", flush=True)
    os.makedirs(os.path.dirname(args.out), exist_ok=True)
    old = {}
    if os.path.exists(args.out):
        old = {r["id"]: r for r in json.load(open(args.out))["mutants"]}
    for r in results:
        old[r["id"]] = r
    allr = sorted(old.values(), key=lambda r: r["id"])
    summary = {"total": len(allr), "killed": sum(r["status"] == "killed" for r in allr),
               "survived": [r["id"] for r in allr if r["status"] == "SURVIVED"]}
    json.dump({"summary": summary, "mutants": allr}, open(args.out, "w"), indent=1)
    print(json.dumps(summary))
    return 0 if all(r["status"] == "killed" for r in results) else 1


if __name__ == "__main__":
    sys.exit(main())
