#!/bin/sh
# Offline setup: the framework is pure Python; only make sure Hypothesis is importable
# by the interpreter that has py-trie's dependencies. Falls back to a private target dir.
set -e
cd "$(dirname "$0")"
PY=${VERIF_PYTHON:-/venv/bin/python}
if ! "$PY" -c "import hypothesis" 2>/dev/null; then
    mkdir -p .deps
    "$PY" -m pip install --quiet --no-index --find-links /opt/veriftools/wheels --target .deps hypothesis
fi
# atheris (thorough tier only, coverage-guided second engine): private target dir
if ! PYTHONPATH=.deps "$PY" -c "import atheris" 2>/dev/null; then
    mkdir -p .deps
    "$PY" -m pip install --quiet --no-index --find-links /opt/veriftools/wheels --target .deps atheris || echo "warning: atheris not installable; thorough tier will report a harness error for its second engine"
fi
PYTHONPATH=/repo:.:.deps "$PY" -c "import hypothesis, trie; from ptv.ref import kat; print('setup ok: hypothesis', hypothesis.__version__, '- reference self-tests:', kat.run_all())"
